"""C12 -- every random draw satisfies all constraints its sampling set declares."""
import ast
from fractions import Fraction

from ..index import AnalysisError, walk_own, walk_all, unparse, short
from .. import nf, lib
from .. import absint as ai
from ..absint import Rat, Interval, SymFact, Facts, INF, Unsupported
from ..selftest import Mutant, Benign
from . import _c12_matrix as mx


def _func(idx, qual):
    """FuncInfo of `pkg.mod.Class.method`, looked up along the MRO when the class itself does not define it
    (constructors / methods moved into a shared base class)."""
    if idx.has_func(qual):
        return idx.func(qual)
    cq, _, name = qual.rpartition('.')
    ci = idx.classes.get(cq)
    if ci is not None:
        f = idx.lookup(ci, name)
        if f is not None and f.module.name.startswith('mitxgraders.') and f.cls is not None \
                and f.cls.qualname != 'mitxgraders.baseclasses.ObjectWithSchema':
            return f
    return idx.func(qual)          # raises "anchor vanished"

ID = 'C12'
SAMPLING = 'mitxgraders/sampling.py'
MATRIX = 'mitxgraders/matrixsampling.py'
VALID = 'mitxgraders/helpers/validatorfuncs.py'
FILES = [SAMPLING, MATRIX, VALID]

EXPLANATION = (
    "Abstract interpretation of every gen_sample over terms extracted from the AST (never by running numpy): "
    "(D1) RealInterval is the affine image of a uniform [0,1) draw with end values start/stop; IntegerRange draws "
    "randint(low=start, high=stop+1), i.e. exactly [start, stop], and both constructors leave a permutation of the "
    "declared bounds with start <= stop (needed by randint); ComplexRectangle = re + im*1j and ComplexSector = "
    "modulus*exp(1j*argument) from RealIntervals built from the right configuration keys; DiscreteSet / "
    "SpecificFunctions return random.choice(self.config); the number type of a range validates both endpoints in the dictionary and the list spelling. (D2) RandomFunction: arity check raising ConfigError, "
    "nin = input_dim, output MathArray of length output_dim iff output_dim > 1, coefficients drawn once outside the "
    "returned function, and the magnitude domain (entrywise bound, np.sum multiplies by the summed axis length, "
    "range-exact flags) proves |f - center| <= amplitude, i.e. the divisor equals the number num_terms*input_dim of "
    "summed sinusoids. (D3) free-algebra check of every SquareMatrices.apply_symmetry branch (S(W) = +-W for S = "
    "transpose / conj-transpose, diag(diag(.)) idempotent), traceless step has trace 0, make_det_one scales by "
    "det**(1/dimension) with the right sign, normalize multiplies by desired/actual norm with the norm drawn from "
    "config['norm'], make_det_zero subtracts an eigenvalue of the array times the identity, GeneralMatrices upper->triu / lower->tril, array draw uses config['shape'] with an imaginary part "
    "iff complex, MathArray wrapping, identity multiples, square shape. (D4) exhaustive enumeration of symmetry x "
    "complex x traceless x determinant x dimension class: the constructor rejects exactly the combinations of the "
    "fixed table, hermitian/antihermitian force complex, make_det_one's assert never fails and its final raise is "
    "unreachable, normalize dispatches on determinant. (D5) the retry loop is bounded, catches only Retry and raises "
    "after the last attempt.")
NOT_DECIDED = ("numerical precision of determinant/trace/eigenvalue computations (that make_det_zero's chosen eigenvalue is numerically an eigenvalue), success probability of the retry loop, distributional properties, "
               "orthogonal/unitary samplers (scipy), student inputs to random functions are assumed real.")
ASSUMPTIONS = ["numpy/random primitives follow the model table in sa/absint.py (rand/random_sample in [0,1), randint(l,h) in "
               "[l,h-1] and raising for l >= h, random.choice returns a member, |sin| <= 1 attained, |exp(i*t)| = 1, "
               "np.sum over an axis of length n multiplies the entrywise bound by n)",
               "arguments of a drawn random function are real numbers"]

S = 'mitxgraders.sampling.'
M = 'mitxgraders.matrixsampling.'


def check(ctx):
    idx = ctx.index
    ai.reset_budget()
    d1_intervals(ctx, idx)
    d1_types(ctx, idx)
    d1_complex(ctx, idx)
    d1_choice(ctx, idx)
    d2_random_function(ctx, idx)
    mx.d3_matrices(ctx, idx)
    mx.d3_det_zero(ctx, idx)
    mx.d4_enum(ctx, idx)
    mx.d5_retry(ctx, idx)


class SampleRat(ai.RatEnv):
    """RatEnv in which every uniform [0,1) draw becomes a fresh symbol u#k."""

    def __init__(self):
        ai.RatEnv.__init__(self)
        self.uniforms = []

    TRUNCATIONS = {'int': 'trunc', 'math.floor': 'floor', 'numpy.floor': 'floor', 'math.trunc': 'trunc', 'numpy.trunc': 'trunc'}

    def rat(self, t):
        if t[0] == 'call' and t[1] in ai.UNIFORM_01 and not t[2] and not t[3]:
            name = 'u#%d' % len(self.uniforms)
            self.uniforms.append(name)
            return Rat.sym(name)
        if t[0] == 'call' and t[1] in self.TRUNCATIONS and len(t[2]) == 1 and not t[3]:
            # int(x) truncates toward zero, floor(x) rounds down: an atom whose argument is remembered
            if not hasattr(self, 'ints'):
                self.ints = {}
            name = 'int#%d' % len(self.ints)
            self.ints[name] = (self.TRUNCATIONS[t[1]], self.rat(t[2][0]))
            return Rat.sym(name)
        return ai.RatEnv.rat(self, t)


def _single_return(idx, fi):
    try:
        paths = ai.sym_exec(idx, fi)
    except Unsupported as e:
        raise AnalysisError('%s: %s' % (fi.qualname, e))
    rets = [p for p in paths if p.kind == 'ret']
    if len(paths) != 1 or len(rets) != 1:
        raise AnalysisError('%s: expected a single return path, found %d paths' % (fi.qualname, len(paths)))
    return rets[0]


# ----------------------------------------------------------------------------- D1 intervals
def _ctor_bounds(idx, qual):
    """Post-state of start/stop after the constructor: [(path, start', stop', ordered?)] and whether super().__init__ runs."""
    ci = idx.cls(qual)
    init = idx.lookup(ci, '__init__')
    if init is not None and init.cls is not None and init.cls.qualname == 'mitxgraders.baseclasses.ObjectWithSchema':
        # no constructor of its own any more: only the schema validation runs, the bounds stay as given
        fi = next(iter(ci.methods.values()), init)
        return fi, [(ai.SPath([], 'fall', None, None, None, {}, {}, [(('opaque', 'call:super().__init__ (inherited)'), None)], {}),
                     ('cfg', 'start'), ('cfg', 'stop'), False)]
    fi = _func(idx, qual + '.__init__')
    try:
        paths = ai.sym_exec(idx, fi)
    except Unsupported as e:
        raise AnalysisError('%s.__init__: %s' % (qual, e))
    out = []
    cs, ct = ('cfg', 'start'), ('cfg', 'stop')
    renv = ai.RatEnv()
    for p in paths:
        if p.kind != 'fall':
            out.append((p, None, None, None))
            continue
        s2, t2 = p.store.get(cs, cs), p.store.get(ct, ct)
        facts = Facts()
        for g in p.conds:
            for c in ai.t_conjuncts(g):
                if c[0] == 'cmp' and c[1] in ('<', '<='):
                    try:
                        facts.assume_nonneg(renv.rat(c[3]) - renv.rat(c[2]), strict=c[1] == '<')
                    except Unsupported:
                        pass
        try:
            ordered = facts.sign(renv.rat(t2) - renv.rat(s2)) in ('pos', 'nonneg', 'zero')
        except Unsupported:
            ordered = False
        out.append((p, s2, t2, ordered))
    return fi, out


def _ctor_witness(paths):
    """Concrete (start, stop) for which the constructor leaves start > stop, or None."""
    for a, b in ((5, 1), (1, 5), (2, 2), (-3, -7)):
        asg = {'start': Fraction(a), 'stop': Fraction(b)}
        for p, s2, t2, _ in paths:
            try:
                if all(ai.concrete(g, asg) for g in p.conds):
                    if s2 is None:
                        break
                    sv, tv = ai.concrete(s2, asg), ai.concrete(t2, asg)
                    if sv > tv:
                        return a, b, sv, tv
                    break
            except (Unsupported, ZeroDivisionError):
                break
    return None


def d1_intervals(ctx, idx):
    cs, ct = ('cfg', 'start'), ('cfg', 'stop')
    start, stop = Rat.sym('start'), Rat.sym('stop')
    ordered_after = {}
    r = ctx.rule('D1.SWAP', 'interval constructors keep both declared bounds and leave start <= stop', floor=4)
    with r:
        for cls in ('RealInterval', 'IntegerRange'):
            fi, paths = _ctor_bounds(idx, S + cls)
            construct = '%s.__init__' % cls
            sup = [e for p, *_ in paths for e, _ in p.effects if e[0] == 'opaque' and 'super(' in e[1] and '__init__' in e[1]]
            if not sup:
                r.undecided(construct, 'super().__init__ (schema validation) not found', fi.loc)
            perm_ok = True
            for p, s2, t2, ordered in paths:
                if s2 is None:
                    r.undecided(construct, 'constructor path ends in %s' % p.kind, fi.loc)
                    perm_ok = None
                    continue
                if not ({s2, t2} == {cs, ct}):
                    perm_ok = False
                    r.violation(construct + ': bounds', 'under `%s` the constructor leaves start=%s, stop=%s: a declared bound is '
                                'lost, samples no longer range over the declared interval' % (
                                    ' and '.join(ai.show(c) for c in p.conds) or 'every input', ai.show(s2), ai.show(t2)),
                                fi.loc, expected='a permutation of (start, stop)', found='(%s, %s)' % (ai.show(s2), ai.show(t2)))
            if perm_ok:
                r.ok(construct + ': bounds', 'every path keeps {start, stop}', fi.loc)
            all_ordered = all(o for _, s2, _, o in paths if s2 is not None)
            ordered_after[cls] = all_ordered
            if all_ordered:
                r.ok(construct + ': order', 'start <= stop after construction on every path', fi.loc)
            else:
                w = _ctor_witness(paths)
                if cls == 'IntegerRange' and w:
                    r.violation(construct + ': order', '%s(start=%d, stop=%d) keeps start=%s > stop=%s, but gen_sample relies on start <= stop '
                                '(np.random.randint(low, high) raises ValueError for low >= high; a scaled uniform draw covers the wrong '
                                'integers), so reversed bounds are not "irrelevant" any more'
                                % (cls, w[0], w[1], w[2], w[3]), fi.loc, expected='start <= stop after construction',
                                found='start=%s, stop=%s' % (w[2], w[3]))
                elif cls == 'IntegerRange':
                    r.undecided(construct + ': order', 'cannot prove start <= stop after construction', fi.loc)
                else:
                    r.ok(construct + ': order', 'bounds are not reordered; RealInterval draws stay between the two bounds either way',
                         fi.loc, nontrivial=False)

    r = ctx.rule('D1.REAL', 'RealInterval.gen_sample is the affine image of a uniform [0,1) draw between start and stop', floor=1)
    with r:
        fi = _func(idx, S + 'RealInterval.gen_sample')
        p = _single_return(idx, fi)
        env = SampleRat()
        construct = 'RealInterval.gen_sample'
        try:
            v = env.rat(p.value)
        except Unsupported as e:
            raise AnalysisError('RealInterval.gen_sample: %s' % e)
        where = lib.loc(fi, p.stmt)
        if len(env.uniforms) != 1 or v.linear_in(env.uniforms[0]) is None:
            r.undecided(construct, 'value `%s` is not affine in exactly one uniform draw' % ai.show(p.value), where)
        else:
            a, b = v.linear_in(env.uniforms[0])
            at0, at1 = b, a + b
            if (at0 == start and at1 == stop) or (at0 == stop and at1 == start):
                r.ok(construct, 'u=0 gives %s, u->1 gives %s: samples fill [%s, %s)' % (at0.text(), at1.text(), at0.text(), at1.text()), where)
            else:
                r.violation(construct, 'the draw ranges over [%s, %s) (exact: affine image of [0,1)), not over the declared interval '
                            'between start and stop; e.g. start=1, stop=5 gives [%s, %s)' % (
                                at0.text(), at1.text(), at0.subs('start', Rat.const(1)).subs('stop', Rat.const(5)).text(),
                                at1.subs('start', Rat.const(1)).subs('stop', Rat.const(5)).text()),
                            where, expected='[start, stop)', found='[%s, %s)' % (at0.text(), at1.text()))

    r = ctx.rule('D1.INT', 'IntegerRange.gen_sample draws exactly the integers start..stop (randint with high = stop + 1)', floor=2)
    with r:
        fi = _func(idx, S + 'IntegerRange.gen_sample')
        p = _single_return(idx, fi)
        where = lib.loc(fi, p.stmt)
        v = p.value
        construct = 'IntegerRange.gen_sample'
        if not (v[0] == 'call' and v[1] in ('numpy.random.randint', 'random.randint', 'random.randrange')):
            _int_scaled_uniform(r, construct, v, where, ordered_after.get('IntegerRange'))
        else:
            kw = dict(v[3])
            names = ('low', 'high') if v[1].startswith('numpy') else ('a', 'b') if v[1] == 'random.randint' else ('start', 'stop')
            lo_t = kw.get(names[0], v[2][0] if len(v[2]) > 0 else None)
            hi_t = kw.get(names[1], v[2][1] if len(v[2]) > 1 else None)
            if lo_t is None or hi_t is None or set(kw) - set(names):
                r.undecided(construct, 'randint arguments `%s` not recognised' % ai.show(v), where)
            else:
                env = ai.RatEnv()
                lo = env.rat(lo_t)
                hi = env.rat(hi_t) - (Rat.const(0) if v[1] == 'random.randint' else Rat.const(1))
                if lo == start and hi == stop:
                    r.ok(construct, 'randint(low=start, high=stop+1): exactly start..stop, both attainable', where)
                else:
                    eg = lambda q: q.subs('start', Rat.const(2)).subs('stop', Rat.const(4)).text()     # noqa: E731
                    r.violation(construct, 'the draw ranges over the integers %s..%s (exact model of randint), not start..stop; '
                                'e.g. IntegerRange(start=2, stop=4) yields %s..%s%s' % (
                                    lo.text(), hi.text(), eg(lo), eg(hi),
                                    ', and start == stop raises ValueError (low >= high)' if (stop - hi) == Rat.const(1) else ''),
                                where, expected='low=start, high=stop+1', found='low=%s, high=%s' % (ai.show(lo_t), ai.show(hi_t)))
                need = Facts().assume_nonneg(stop - start)
                pre = need.sign(hi - lo + Rat.const(1)) == 'pos' if lo == start and hi == stop else None
                if pre and ordered_after.get('IntegerRange'):
                    r.ok(construct + ': low < high', 'follows from start <= stop established by the constructor', where)
                elif pre:
                    r.undecided(construct + ': low < high', 'randint needs low < high; start <= stop is not established by the '
                                'constructor (see D1.SWAP)', where)


def _int_scaled_uniform(r, construct, v, where, ordered):
    """Integer draws of the form  A + int(B*u + C)  with u uniform in [0, 1) (half-open!), A, B, C integer expressions in
    start/stop: for B >= 0 and C >= 0 the argument ranges over [C, C + B), so its truncation takes exactly the values
    C .. C + B - 1 (only C when B = 0), and the sample set is A + C .. A + C + B - 1."""
    start, stop = Rat.sym('start'), Rat.sym('stop')
    env = SampleRat()
    try:
        whole = env.rat(v)
    except Unsupported as e:
        r.undecided(construct, 'returned value `%s` is neither a randint draw nor an integer-scaled uniform draw (%s)' % (ai.show(v), e), where)
        return
    ints = getattr(env, 'ints', {})
    if len(ints) != 1 or len(env.uniforms) != 1:
        r.undecided(construct, 'returned value `%s` is not of the form A + int(B*u + C)' % ai.show(v), where)
        return
    iname, (mode, inner) = next(iter(ints.items()))
    u = env.uniforms[0]
    lin = whole.linear_in(iname)
    inl = inner.linear_in(u)
    if lin is None or inl is None or not (lin[0] == Rat.const(1)) or u in lin[1].symbols() or iname in lin[1].symbols():
        r.undecided(construct, 'returned value `%s` is not of the form A + int(B*u + C)' % ai.show(v), where)
        return
    A, (B, C) = lin[1], inl
    facts = Facts().assume_nonneg(stop - start)           # established by the constructor (D1.SWAP), start/stop are integers
    if not ordered:
        r.undecided(construct, 'the draw A + int(B*u + C) needs start <= stop, which the constructor does not establish (see D1.SWAP)', where)
        return
    sb, sc = facts.sign(B), facts.sign(C)
    if sb not in ('pos', 'nonneg', 'zero') or (mode == 'trunc' and sc not in ('pos', 'nonneg', 'zero')):
        r.undecided(construct, 'cannot order the scaled draw: B = %s, C = %s' % (B.text(), C.text()), where)
        return
    lo, hi = A + C, A + C + B - Rat.const(1)
    if lo == start and hi == stop:
        r.ok(construct, 'start + int((stop - start + 1)*u), u in [0, 1): exactly start..stop, both attainable', where)
        r.ok(construct + ': low < high', 'B = %s >= 1 follows from start <= stop established by the constructor' % B.text(), where)
        return
    eg = lambda q: q.subs('start', Rat.const(2)).subs('stop', Rat.const(4)).text()     # noqa: E731
    missing = []
    if lo == start and (stop - hi) == Rat.const(1):
        missing.append('the upper endpoint stop is never drawn: random_sample() lies in the half-open interval [0, 1), so '
                       '(%s)*u < %s and its integer part is at most %s' % (B.text(), B.text(), (B - Rat.const(1)).text()))
    elif hi == stop and (lo - start) == Rat.const(1):
        missing.append('the lower endpoint start is never drawn')
    r.violation(construct, 'the draw ranges over the integers %s..%s (exact: integer part of a uniform draw on [%s, %s)), not start..stop; '
                'e.g. IntegerRange(start=2, stop=4) yields %s..%s%s' % (lo.text(), hi.text(), C.text(), (C + B).text(), eg(lo), eg(hi),
                                                                      ('. ' + missing[0]) if missing else ''),
                where, expected='start + int((stop - start + 1) * random_sample())  /  randint(start, stop + 1)', found=ai.show(v))


def _module_value_term(idx, anyfi, t):
    """('ext', 'pkg.mod.NAME') of a module-level binding -> the term of the bound value (or t itself)."""
    if t[0] != 'ext' or '.' not in t[1]:
        return t
    modname, name = t[1].rsplit('.', 1)
    mod = idx.modules.get(modname)
    if mod is None or len(mod.assigns.get(name, [])) != 1:
        return t
    holder = next((f for f in mod.all_funcs), None)
    if holder is None:
        return t
    return ai.TermBuilder(idx, holder).build(mod.assigns[name][0], {})


def d1_types(ctx, idx):
    """IntegerRange draws with randint(low=start, high=stop+1): its endpoints must be validated as ints in EVERY accepted
    spelling of the range ({'start':..,'stop':..} / keyword arguments, and the list [start, stop]); with a float endpoint
    randint truncates and the samples leave the declared interval.  Checked symbolically: the number_type handed to
    NumberRange must be the validator of both dictionary entries and of both list entries."""
    r = ctx.rule('D1.TYPES', 'the number type of a range (int for IntegerRange) validates both endpoints in every accepted spelling', floor=4)
    V = 'mitxgraders.helpers.validatorfuncs.'
    T = ('sym', 'NUMBER_TYPE')
    with r:
        for cls, want in (('IntegerRange', 'int'), ('RealInterval', None)):
            ci = idx.cls(S + cls)
            holder, node = idx.lookup_attr(ci, 'schema_config')
            ok = isinstance(node, ast.Call) and nf.callee_name(node) == 'NumberRange'
            if not ok:
                r.undecided('%s.schema_config' % cls, 'not a NumberRange(...) call', ci.loc)
                continue
            arg = node.args[0] if node.args else next((k.value for k in node.keywords if k.arg == 'number_type'), None)
            if want is None:
                continue
            if isinstance(arg, ast.Name) and arg.id == want:
                r.ok('%s.schema_config' % cls, 'NumberRange(int)', ci.loc)
            elif arg is None or (isinstance(arg, ast.Name) and arg.id in ('float', 'Number')):
                r.violation('%s.schema_config' % cls, 'the endpoints of the integer sampler are validated as `%s`, not int: IntegerRange(start=1.5, '
                            'stop=3.5) is accepted and np.random.randint truncates the bounds, so samples (1, 2, 3) lie outside the declared '
                            'interval' % (short(arg) if arg is not None else 'Number'), ci.loc, expected='NumberRange(int)')
            else:
                r.undecided('%s.schema_config' % cls, 'number type `%s` not recognised' % short(arg), ci.loc)
        nr = _func(idx, V + 'NumberRange')
        if len(nr.params) != 1:
            raise AnalysisError('NumberRange should take (number_type)')
        try:
            paths = ai.sym_exec(idx, nr, env={nr.params[0]: T})
        except Unsupported as e:
            raise AnalysisError('NumberRange: %s' % e)
        if len(paths) != 1 or paths[0].kind != 'ret':
            raise AnalysisError('NumberRange: expected a single return')
        dicts = [t for t in ai.subterms(paths[0].value) if t[0] == 'dict']
        entries = {}
        for d in dicts:
            for k, v in d[1]:
                if k[0] == 'call' and k[1].split('.')[-1] in ('Required', 'Optional') and k[2] and k[2][0][0] == 'str':
                    entries[k[2][0][1]] = v
        for key in ('start', 'stop'):
            construct = "NumberRange: {'%s': ...}" % key
            if key not in entries:
                r.undecided(construct, 'dictionary spelling has no entry for %r' % key, nr.loc)
            else:
                r.check(entries[key] == T, construct, 'validated as number_type',
                        'the %r entry of the dictionary spelling is validated as `%s`, ignoring number_type: IntegerRange(%s=1.5) is accepted '
                        'and randint truncates it' % (key, ai.show(entries[key]), key), nr.loc, expected='number_type', found=ai.show(entries[key]))
        # the list spelling
        alts = [t for t in ai.subterms(paths[0].value) if t[0] == 'call' and t[1].split('.')[-1] == 'number_range_alternate']
        construct = 'NumberRange: [start, stop] spelling'
        if len(alts) != 1:
            r.undecided(construct, 'number_range_alternate(...) not found among the alternatives', nr.loc)
            return
        if alts[0][2] != (T,) and dict(alts[0][3]).get('number_type') != T:
            r.violation(construct, 'number_range_alternate is built with `%s` instead of the number type of the range: the list spelling '
                        'IntegerRange([1.5, 3.5]) is validated as plain numbers, randint truncates the bounds and the samples leave the declared '
                        'interval' % (ai.show(alts[0][2][0]) if alts[0][2] else 'its default Number'), nr.loc, expected='number_range_alternate(number_type)')
            return
        alt = _func(idx, V + 'number_range_alternate')
        try:
            ap = ai.sym_exec(idx, alt, env={alt.params[0]: T})
            if len(ap) != 1 or ap[0].kind != 'ret' or ap[0].value[0] != 'closure':
                raise Unsupported('number_range_alternate does not return a local validator function')
            name = ap[0].value[1]
            node, env, store = ap[0].closures[name]
            inner = _func(idx, alt.qualname + '.<locals>.' + name)
            qs = [q for q in ai.sym_exec(idx, inner, stmts=node.body, env=env, store=store) if q.kind == 'ret']
        except Unsupported as e:
            r.undecided(construct, str(e), alt.loc)
            return
        if len(qs) != 1 or qs[0].value[0] != 'dict':
            r.undecided(construct, 'the list validator does not return a dictionary literal', alt.loc)
            return
        got = {k[1]: v for k, v in qs[0].value[1] if k[0] == 'str'}
        problems, validated = [], None
        for key, pos in (('start', 0), ('stop', 1)):
            v = got.get(key)
            if v is None or v[0] != 'index' or v[2] != ai.num(pos):
                r.undecided(construct, 'entry %r of the returned dictionary is `%s`' % (key, ai.show(v) if v else 'missing'), alt.loc)
                return
            src = v[1]
            if src[0] == 'call' and len(src[2]) == 1 and not src[3] and src[1].startswith('mitxgraders.'):
                src = ('meth', ('ext', src[1]), '__call__', src[2], ())         # a module-level schema object applied to the list
            if not (src[0] == 'meth' and src[2] == '__call__' and len(src[3]) == 1):
                r.violation(construct, 'the list entries are used without validation (`%s`)' % ai.show(src)[:80], alt.loc) if src[0] == 'param' \
                    else r.undecided(construct, 'validated list `%s` not recognised' % ai.show(src)[:80], alt.loc)
                return
            validated = _module_value_term(idx, alt, src[1])
        lists = [t for t in ai.subterms(validated) if t[0] == 'list']
        if len(lists) != 1:
            r.undecided(construct, 'schema of the list spelling `%s` not recognised' % ai.show(validated)[:80], alt.loc)
            return
        bad = [x for x in lists[0][1] if x != T]
        if bad:
            r.violation(construct, 'the entries of the list spelling are validated as `%s`, ignoring number_type: IntegerRange([1.5, 3.5]) is '
                        'accepted although IntegerRange(start=1.5, stop=3.5) is refused; np.random.randint then truncates the bounds and draws '
                        '1, 2, 3 - samples outside the declared interval [1.5, 3.5]' % ai.show(bad[0]), alt.loc,
                        expected='[number_type, number_type]', found=ai.show(lists[0]))
        else:
            r.ok(construct, 'both list entries are validated as number_type and mapped to start / stop', alt.loc)


# ----------------------------------------------------------------------------- D1 complex
class Cx(object):
    """Complex value as re + im*i (Rats over sample symbols) or polar (modulus, argument)."""

    def __init__(self, re=None, im=None, polar=None):
        self.re = re if re is not None else Rat.const(0)
        self.im = im if im is not None else Rat.const(0)
        self.polar = polar       # (modulus Rat, argument Rat) or None

    def text(self):
        if self.polar:
            return '%s * exp(i*%s)' % (self.polar[0].text(), self.polar[1].text())
        return '%s + i*(%s)' % (self.re.text(), self.im.text())


class CxEval(object):
    def __init__(self, attr_keys):
        self.attr_keys = attr_keys      # attribute name -> config key of the RealInterval behind it
        self.count = {}

    def ev(self, t):
        k = t[0]
        if k == 'num':
            return Cx(Rat.const(t[1]))
        if k == 'imag':
            return Cx(im=Rat.const(t[1]))
        if k == 'meth' and t[2] == 'gen_sample' and not t[3] and t[1][0] == 'call' and t[1][1].split('.')[-1] == 'RealInterval' \
                and len(t[1][2]) == 1 and t[1][2][0][0] == 'cfg':
            key = t[1][2][0][1]
            n = self.count[key] = self.count.get(key, 0) + 1
            return Cx(Rat.sym('%s%s' % (key, "'" * (n - 1))))
        if k == 'meth' and t[2] == 'gen_sample' and t[1][0] == 'attr' and t[1][1] == ('self',) and not t[3]:
            key = self.attr_keys.get(t[1][2])
            if key is None:
                raise Unsupported('self.%s is not a RealInterval built from the configuration' % t[1][2])
            n = self.count[key] = self.count.get(key, 0) + 1
            return Cx(Rat.sym('%s%s' % (key, "'" * (n - 1))))
        if k in ('add', 'sub'):
            a, b = self.ev(t[1]), self.ev(t[2])
            if a.polar or b.polar:
                raise Unsupported('sum involving a polar value')
            return Cx(a.re + b.re, a.im + b.im) if k == 'add' else Cx(a.re - b.re, a.im - b.im)
        if k == 'neg':
            a = self.ev(t[1])
            return Cx(-a.re, -a.im)
        if k == 'mul':
            a, b = self.ev(t[1]), self.ev(t[2])
            for x, y in ((a, b), (b, a)):
                if y.polar and not x.polar and x.im.is_zero():
                    return Cx(polar=(y.polar[0] * x.re, y.polar[1]))
            if a.polar or b.polar:
                raise Unsupported('product of polar values')
            return Cx(a.re * b.re - a.im * b.im, a.re * b.im + a.im * b.re)
        if k == 'call' and t[1] == 'numpy.exp' and len(t[2]) == 1:
            a = self.ev(t[2][0])
            if a.polar:
                raise Unsupported('exp of a polar value')
            if a.re.is_zero():
                return Cx(polar=(Rat.const(1), a.im))
            return Cx(polar=(Rat.sym('exp(%s)' % a.re.text()), a.im))
        raise Unsupported('`%s` is outside the complex composition model' % ai.show(t))


def _roles_bound_by_dict_order(r, idx, ci, cls, ctor, k1, k2):
    """The constructor builds its RealIntervals by walking self.config (items / values / keys) into an ordered container and
    gen_sample hands the draws on positionally: the roles then follow the iteration order of the validated dictionary, which
    is the order in which the author wrote the options, not the declared (re, im) / (modulus, argument) order."""
    me = ctor.params[0]

    def is_config(e):
        return isinstance(e, ast.Attribute) and e.attr == 'config' and isinstance(e.value, ast.Name) and e.value.id == me
    loops = []
    for n in walk_own(ctor.node):
        if isinstance(n, ast.For):
            it = n.iter
            if is_config(it) or (isinstance(it, ast.Call) and isinstance(it.func, ast.Attribute) and it.func.attr in ('items', 'values', 'keys')
                                 and is_config(it.func.value)):
                loops.append(n)
    if not loops:
        return False
    loop = loops[0]
    builds = [c for c in ast.walk(loop) if isinstance(c, ast.Call) and nf.callee_name(c) == 'RealInterval']
    appends = [c for c in ast.walk(loop) if isinstance(c, ast.Call) and isinstance(c.func, ast.Attribute) and c.func.attr == 'append'
               and isinstance(c.func.value, ast.Attribute) and isinstance(c.func.value.value, ast.Name) and c.func.value.value.id == me]
    if not builds or not appends:
        return False
    container = appends[0].func.value.attr
    gs = _func(idx, ci.qualname + '.gen_sample')
    gme = gs.params[0]
    positional = False
    for c in ast.walk(gs.node):
        if isinstance(c, ast.Call):
            for a in c.args:
                if isinstance(a, ast.Starred) and any(isinstance(x, ast.Attribute) and x.attr == container and isinstance(x.value, ast.Name)
                                                      and x.value.id == gme for x in ast.walk(a)):
                    positional = True
        if isinstance(c, ast.Subscript) and isinstance(c.value, ast.Attribute) and c.value.attr == container \
                and isinstance(c.slice, ast.Constant) and isinstance(c.slice.value, int):
            positional = True
    if not positional:
        return False
    r.violation('%s: roles of the two ranges' % cls, 'the RealIntervals are collected in self.%s by iterating over `%s`, and gen_sample hands the '
                'draws on positionally: the roles (%s, %s) therefore follow the iteration order of the validated configuration dictionary, '
                'i.e. the order in which the author wrote the options, not the declared order. %s(%s=[...], %s=[...]) swaps the two: the '
                'sample is %s' % (container, short(loop.iter), k1, k2, cls, k2, k1,
                                 'im + re*1j - outside the declared rectangle' if cls == 'ComplexRectangle'
                                 else 'argument * exp(1j*modulus) - outside the declared sector'),
                lib.loc(ctor, loop), expected='intervals built in the declared order (%s, %s)' % (k1, k2), found='for ... in %s' % short(loop.iter))
    return True


def d1_complex(ctx, idx):
    r = ctx.rule('D1.CPLX', 'ComplexRectangle = re + im*1j and ComplexSector = modulus*exp(1j*argument) from the right config keys', floor=6)
    spec = {'ComplexRectangle': ('re', 'im'), 'ComplexSector': ('modulus', 'argument')}
    with r:
        for cls, (k1, k2) in spec.items():
            ci = idx.cls(S + cls)
            ctor = _func(idx, S + cls + '.__init__')
            try:
                cpaths = ai.sym_exec(idx, ctor, self_cls=ci)
            except Unsupported as e:
                if _roles_bound_by_dict_order(r, idx, ci, cls, ctor, k1, k2):
                    continue
                raise AnalysisError('%s.__init__: %s' % (cls, e))
            if len(cpaths) != 1 or cpaths[0].kind != 'fall':
                raise AnalysisError('%s.__init__: expected straight-line code' % cls)
            attr_keys = {}
            for loc_t, val in cpaths[0].store.items():
                if loc_t[0] == 'attr' and loc_t[1] == ('self',):
                    if val[0] == 'call' and val[1].split('.')[-1] == 'RealInterval' and len(val[2]) == 1 and val[2][0][0] == 'cfg':
                        attr_keys[loc_t[2]] = val[2][0][1]
            for attr, key in sorted(attr_keys.items()):
                if key not in (k1, k2):
                    r.violation('%s.__init__: self.%s' % (cls, attr), 'built from config[%r], which is not an option of the set' % key, ctor.loc)
            gs = _func(idx, S + cls + '.gen_sample')
            try:
                gpaths = ai.sym_exec(idx, gs, store=cpaths[0].store, self_cls=ci)      # the attributes set up by the constructor are visible
            except Unsupported as e:
                raise AnalysisError('%s.gen_sample: %s' % (cls, e))
            if len(gpaths) != 1 or gpaths[0].kind != 'ret':
                raise AnalysisError('%s.gen_sample: expected a single return' % cls)
            p = gpaths[0]
            # template method: self.combine(a, b) is the concrete class's formula
            val = p.value
            if val[0] == 'meth' and val[1] == ('self',) and not val[4]:
                callee = idx.lookup(ci, val[2])
                cparams = callee.params if (callee is not None and callee.is_static) else (callee.params[1:] if callee is not None else [])
                if callee is not None and len(cparams) == len(val[3]) and callee.module.name.startswith('mitxgraders.'):
                    try:
                        cps = ai.sym_exec(idx, callee, env=dict(zip(cparams, val[3])))
                    except Unsupported:
                        cps = []
                    if len(cps) == 1 and cps[0].kind == 'ret':
                        p = ai.SPath(p.guards, 'ret', cps[0].value, None, cps[0].stmt, p.store, p.env, p.effects, p.closures)
                        gs = callee
            for loc_t, val_ in cpaths[0].store.items():
                if loc_t[0] == 'attr' and val_[0] == 'list':
                    for x in val_[1]:
                        if x[0] == 'call' and x[1].split('.')[-1] == 'RealInterval' and len(x[2]) == 1 and x[2][0][0] == 'cfg':
                            attr_keys.setdefault('%s[%s]' % (loc_t[2], x[2][0][1]), x[2][0][1])
            where = lib.loc(gs, p.stmt)
            ev = CxEval(attr_keys)
            construct = '%s.gen_sample' % cls
            try:
                v = ev.ev(p.value)
            except Unsupported as e:
                r.undecided(construct, str(e), where)
                continue
            a, b = Rat.sym(k1), Rat.sym(k2)
            if cls == 'ComplexRectangle':
                good = v.polar is None and v.re == a and v.im == b
                want = "%s + i*%s with %s ~ RealInterval(config['re']), %s ~ RealInterval(config['im'])" % (k1, k2, k1, k2)
                why = ('the real part must be one draw from the re range and the imaginary part one draw from the im range; found '
                       '%s (a symbol names the configuration key its draw comes from)' % v.text())
            else:
                good = v.polar is not None and v.polar[0] == a and v.polar[1] == b
                want = "%s * exp(i*%s) with draws from config['modulus'] and config['argument']" % (k1, k2)
                why = ('the sample must have modulus drawn from the modulus range and argument drawn from the argument range '
                       '(|exp(i*t)| = 1 exactly); found %s' % v.text())
            r.check(good, construct, v.text(), why, where, expected=want, found=v.text())
            for key in (k1, k2):
                attrs = [at for at, kk in attr_keys.items() if kk == key]
                if not attrs and (idx.unreviewed or not good):
                    r.undecided('%s.__init__: RealInterval(config[%r])' % (cls, key), 'no RealInterval built from this key was found', ctor.loc)
                else:
                    r.check(bool(attrs), '%s.__init__: RealInterval(config[%r])' % (cls, key), 'self.%s' % (attrs[0] if attrs else '?'),
                            'no RealInterval is built from config[%r]: that declared range is ignored' % key, ctor.loc)


def d1_choice(ctx, idx):
    r = ctx.rule('D1.CHOICE', 'DiscreteSet / SpecificFunctions return a member of the configured collection', floor=2)
    with r:
        for cls in ('DiscreteSet', 'SpecificFunctions'):
            fi = _func(idx, S + cls + '.gen_sample')
            p = _single_return(idx, fi)
            v = p.value
            cfg = ('attr', ('self',), 'config')
            where = lib.loc(fi, p.stmt)
            construct = '%s.gen_sample' % cls
            if v == ('call', 'random.choice', (cfg,), ()):
                r.ok(construct, 'random.choice(self.config): a listed member (exact model)', where)
            elif v[0] == 'index' and v[1] == cfg:
                r.ok(construct, 'an element of self.config', where)
            elif v[0] == 'call' and v[1] in ('random.choice', 'numpy.random.choice') and len(v[2]) == 1:
                r.violation(construct, 'the sample is chosen from `%s`, not from the configured members self.config' % ai.show(v[2][0]),
                            where, expected='random.choice(self.config)', found=ai.show(v))
            elif any(s == cfg for s in ai.subterms(v)) and v[0] in ('add', 'sub', 'mul', 'div', 'neg'):
                r.violation(construct, 'the chosen member is transformed (`%s`): the result need not be a listed member' % ai.show(v),
                            where, expected='random.choice(self.config)', found=ai.show(v))
            else:
                r.undecided(construct, 'returned value `%s` not recognised' % ai.show(v), where)


# ----------------------------------------------------------------------------- D2
RF = S + 'RandomFunction'


def _random_calls(node, idx, module):
    out = []
    for n in ast.walk(node):
        if isinstance(n, ast.Call):
            d = idx.dotted_of(module, n.func)
            if d and (d.startswith('numpy.random.') or d.startswith('random.')):
                out.append((n, d))
    return out


def d2_random_function(ctx, idx):
    r_ar = ctx.rule('D2.ARITY', 'a drawn random function refuses a wrong argument count and is tagged nin = input_dim', floor=2)
    r_sh = ctx.rule('D2.SHAPE', 'the function returns a MathArray of length output_dim iff output_dim > 1, else a scalar', floor=2)
    r_bd = ctx.rule('D2.BOUND', 'values stay within center +/- amplitude: the divisor equals the number of summed sinusoids', floor=2)
    r_fx = ctx.rule('D2.FIXED', 'the coefficients are drawn once, outside the returned function, whose results do not share a buffer', floor=2)
    fi = _func(idx, RF + '.gen_sample')
    inner_paths = []
    with r_ar:
        facts = ai.schema_facts(idx, idx.cls(RF))
        for k in ('input_dim', 'output_dim', 'num_terms', 'amplitude', 'center'):
            if k not in facts.syms:
                raise AnalysisError('RandomFunction schema lost option %s' % k)
        try:
            outer = ai.sym_exec(idx, fi)
        except Unsupported as e:
            raise AnalysisError('RandomFunction.gen_sample: %s' % e)
        seen = set()
        for p in outer:
            if p.kind != 'ret' or p.value[0] != 'closure':
                r_ar.undecided('RandomFunction.gen_sample', 'a path does not return the local function', fi.loc)
                continue
            name = p.value[1]
            node, env, store = p.closures[name]
            nin = p.store.get(('attr', ('closure', name), 'nin'))
            label = 'complex' if any(c == ('cfg', 'complex') for c in p.conds) else 'real'
            if 'nin' not in seen:
                seen.add('nin')
                if nin is None and idx.unreviewed:
                    r_ar.undecided('RandomFunction.gen_sample: nin', 'nin tag not found here; unreviewed helpers remain', fi.loc)
                elif nin is None:
                    r_ar.violation('RandomFunction.gen_sample: nin', 'the function is no longer tagged with its number of arguments '
                                   '(nin): graders cannot check the arity a student uses', fi.loc, expected='random_function.nin = input_dim')
                else:
                    r_ar.check(nin == ('cfg', 'input_dim'), 'RandomFunction.gen_sample: nin', "nin = config['input_dim']",
                               'the function is tagged with nin = %s instead of input_dim' % ai.show(nin), fi.loc,
                               expected="config['input_dim']", found=ai.show(nin))
            inner = _func(idx, fi.qualname + '.<locals>.' + name)
            if not inner.node.args.vararg or inner.node.args.args:
                r_ar.undecided('random_function', 'signature is not (*args)', inner.loc)
                continue
            va = ('param', inner.node.args.vararg.arg)
            try:
                qs = ai.sym_exec(idx, inner, stmts=node.body, env=env, store=store)
            except Unsupported as e:
                r_ar.undecided('random_function [%s]' % label, str(e), inner.loc)
                continue
            inner_paths.append((label, inner, va, qs, facts))
            if 'arity' in seen:
                continue
            seen.add('arity')
            ln = ('call', 'len', (va,), ())
            want = ('cmp', '!=', ln, ('cfg', 'input_dim'))
            raising = [q for q in qs if q.kind == 'raise']
            construct = 'random_function: arity check'
            if not raising and idx.unreviewed:
                r_ar.undecided(construct, 'no arity check found here; unreviewed helpers remain', inner.loc)
            elif not raising:
                r_ar.violation(construct, 'a call with the wrong number of arguments is no longer refused: numpy broadcasting then '
                               'silently evaluates a function of another arity', inner.loc, expected='if len(args) != input_dim: raise ConfigError')
            for q in raising:
                g = q.conds[0] if q.conds else None
                where = lib.loc(inner, q.stmt)
                if g in (want, ('cmp', '!=', ('cfg', 'input_dim'), ln)) and len(q.conds) == 1:
                    r_ar.check(q.exc == 'ConfigError', construct, 'len(args) != input_dim raises ConfigError',
                               'a wrong argument count raises %s instead of ConfigError' % q.exc, where, expected='ConfigError', found=q.exc)
                elif g is not None and g[0] == 'cmp' and {g[2], g[3]} == {ln, ('cfg', 'input_dim')}:
                    r_ar.violation(construct, 'the arity check is `%s`: some wrong argument counts pass' % ai.show(g), where,
                                   expected='len(args) != input_dim', found=ai.show(g))
                else:
                    r_ar.undecided(construct, 'raise under `%s` not recognised' % (ai.show(g) if g else 'no guard'), where)

    with r_fx:
        for label, inner, va, qs, facts in inner_paths[:1]:
            _returned_buffer(r_fx, fi, inner)
        for label, inner, va, qs, facts in inner_paths[:1]:
            draws = _random_calls(inner.node, idx, inner.module)
            if draws:
                n, d = draws[0]
                r_fx.violation('random_function', 'the returned function draws random numbers itself (%s): two evaluations at the '
                               'same point differ, the sample is not a fixed function' % d, lib.loc(inner, n),
                               expected='all np.random draws outside the returned function')
            else:
                outer_draws = _random_calls(fi.node, idx, fi.module)
                if outer_draws:
                    r_fx.ok('random_function', '%d draws, all in gen_sample before the function is built' % len(outer_draws), fi.loc)
                else:
                    r_fx.undecided('random_function', 'no random draw found in gen_sample', fi.loc)

    for rule in (r_sh, r_bd):
        with rule:
            for label, inner, va, qs, facts in inner_paths:
                rets = [q for q in qs if q.kind == 'ret']
                if len(rets) != 1:
                    rule.undecided('random_function [%s]' % label, 'expected one returning path, found %d' % len(rets), inner.loc)
                    continue
                q = rets[0]
                subst = {}
                ln = ('call', 'len', (va,), ())
                for g in q.conds:
                    if g[0] == 'cmp' and g[1] == '==' and ln in (g[2], g[3]):
                        other = g[3] if g[2] == ln else g[2]
                        subst[ln] = ai.RatEnv().rat(other)
                (_shape if rule is r_sh else _bound)(rule, label, inner, q, facts, subst)


VIEW_CALLS = {'MathArray', 'asarray', 'asanyarray', 'view', 'reshape', 'ravel', 'squeeze', 'transpose', 'atleast_1d', 'swapaxes'}
FRESH_CALLS = {'array', 'copy', 'deepcopy', 'zeros', 'ones', 'empty', 'zeros_like', 'ones_like', 'empty_like', 'float', 'complex', 'int', 'list', 'tuple'}


def _returned_buffer(r, outer, inner):
    """A drawn function must be a *fixed* function: a value it returns may not alias an object that outlives the call
    (a variable of the enclosing gen_sample captured by the closure) and is written in place by the function itself
    (np.<ufunc>(..., out=buf), `buf op= x`, `buf[...] = x`): the next evaluation would change the value returned earlier.
    MathArray(x) / np.asarray(x) / x.view() / x.reshape() / x.T / slices propagate aliasing; arithmetic results,
    .copy(), np.array(x) and scalar conversions do not."""
    from ..index import local_names
    inner_locals = set()
    a = inner.node.args
    params = {x.arg for x in a.posonlyargs + a.args + a.kwonlyargs} | ({a.vararg.arg} if a.vararg else set()) | ({a.kwarg.arg} if a.kwarg else set())
    stored = {n.id for n in walk_own(inner.node) if isinstance(n, ast.Name) and isinstance(n.ctx, ast.Store)}
    outer_vars = local_names(outer.node) - params
    alias = {}           # inner local -> set of captured outer variables it may alias
    mutated = {}         # captured variable -> node of an in-place write

    def al(e):
        if isinstance(e, ast.Name):
            if e.id in alias:
                return set(alias[e.id])
            if e.id in outer_vars and e.id not in stored and e.id not in params:
                return {e.id}
            return set()
        if isinstance(e, ast.IfExp):
            return al(e.body) | al(e.orelse)
        if isinstance(e, ast.Attribute) and e.attr in ('T', 'real', 'imag', 'flat'):
            return al(e.value)
        if isinstance(e, ast.Subscript):
            return al(e.value) if isinstance(e.slice, ast.Slice) or (isinstance(e.slice, ast.Tuple) and any(isinstance(x, ast.Slice) for x in e.slice.elts)) else set()
        if isinstance(e, ast.Call):
            for k in e.keywords:
                if k.arg == 'out':
                    return al(k.value)            # numpy returns the `out` object itself
            name = nf.callee_name(e)
            if name in FRESH_CALLS:
                return set()
            if name in VIEW_CALLS:
                if isinstance(e.func, ast.Attribute) and not (isinstance(e.func.value, ast.Name) and e.func.value.id in ('np', 'numpy')):
                    recv = al(e.func.value)
                    if recv:
                        return recv
                return al(e.args[0]) if e.args else set()
            return set()
        return set()

    stmts = [n for n in walk_own(inner.node) if isinstance(n, ast.stmt)]
    returned = set()
    ret_node = None
    for st in stmts:
        for c in [n for n in ast.walk(st) if isinstance(n, ast.Call)]:
            for k in c.keywords:
                if k.arg == 'out':
                    for o in al(k.value):
                        mutated.setdefault(o, c)
        if isinstance(st, ast.Assign):
            val = al(st.value)
            for t in st.targets:
                if isinstance(t, ast.Name):
                    alias[t.id] = val
                elif isinstance(t, ast.Subscript):
                    for o in al(t.value):
                        mutated.setdefault(o, st)
        elif isinstance(st, ast.AugAssign):
            if isinstance(st.target, ast.Name):
                for o in al(st.target):
                    mutated.setdefault(o, st)           # numpy arrays are updated in place; the name keeps its aliases
            elif isinstance(st.target, ast.Subscript):
                for o in al(st.target.value):
                    mutated.setdefault(o, st)
        elif isinstance(st, ast.Return) and st.value is not None:
            got = al(st.value)
            if got:
                returned |= got
                ret_node = st
    bad = sorted(returned & set(mutated))
    if bad:
        o = bad[0]
        r.violation('random_function: returned value aliases `%s`' % o, 'the function returns a view of `%s`, an object created once in gen_sample and '
                    'captured by the closure, and writes into it in place on every call (`%s`): a value returned by an earlier evaluation '
                    'changes when the function is evaluated again (f(x1) and f(x2) end up equal), so the drawn sample is not a fixed function'
                    % (o, short(mutated[o], 70)), lib.loc(inner, ret_node), expected='return a fresh array (no out= buffer shared between calls)',
                    found=short(ret_node.value, 80))
    else:
        r.ok('random_function: returned value', 'does not alias a captured object that the function writes in place', inner.loc)


def _split_return(v):
    """(condition, array-branch term, scalar-branch term) of `MathArray(F) if output_dim > 1 else F[0]`."""
    if v[0] == 'ifexp':
        return v[1], v[2], v[3]
    return None, v, None


def _shape(r, label, inner, q, facts, subst):
    where = lib.loc(inner, q.stmt)
    construct = 'random_function [%s]: output' % label
    cond, arr, sca = _split_return(q.value)
    od = Rat.sym('output_dim')
    me = ai.MagEval(facts, subst)
    try:
        if cond is None:
            r.undecided(construct, 'return value `%s` is not a conditional on output_dim' % ai.show(q.value)[:80], where)
            return
        a, s = me.ev(arr), me.ev(sca)
    except Unsupported as e:
        r.undecided(construct, str(e), where)
        return
    want = ('cmp', '<', ai.num(1), ('cfg', 'output_dim'))
    problems = []
    if cond != want:
        if cond[0] == 'cmp' and ('cfg', 'output_dim') in (cond[2], cond[3]):
            problems.append('the vector form is chosen by `%s` instead of output_dim > 1 (output_dim = 1 must give a scalar)' % ai.show(cond))
        else:
            r.undecided(construct, 'condition `%s` not recognised' % ai.show(cond), where)
            return
    if not (len(a.shape) == 1 and a.shape[0] == od):
        problems.append('the vector result has shape (%s) instead of (output_dim,)' % ', '.join(x.text() for x in a.shape))
    if a.wrapped != 'MathArray':
        problems.append('the vector result is not wrapped in MathArray')
    if s.shape != ():
        problems.append('the scalar result has shape (%s)' % ', '.join(x.text() for x in s.shape))
    if problems:
        r.violation(construct, '; '.join(problems), where, expected='MathArray of length output_dim if output_dim > 1 else a scalar')
    else:
        r.ok(construct, 'MathArray with shape (output_dim,) iff output_dim > 1, else a scalar entry', where)


def _bound(r, label, inner, q, facts, subst):
    where = lib.loc(inner, q.stmt)
    construct = 'random_function [%s]: magnitude' % label
    cond, arr, sca = _split_return(q.value)
    amp, center = Rat.sym('amplitude'), Rat.sym('center')
    for name, t in (('vector', arr), ('scalar', sca)):
        if t is None:
            continue
        me = ai.MagEval(facts, subst)
        try:
            v = me.ev(t)
        except Unsupported as e:
            r.undecided('%s (%s)' % (construct, name), str(e), where)
            return
        if v.bound is None:
            r.violation(construct, 'the %s result is unbounded in the model (%s): it cannot stay within center +/- amplitude'
                        % (name, v.text()), where)
            return
        if not (v.offset == center):
            r.violation(construct, 'oscillations are centred on %s instead of center' % v.offset.text(), where,
                        expected='center', found=v.offset.text())
            return
        if facts.proves_le(v.bound, amp):
            continue
        # not provable: look for an admissible configuration where the (exact) bound exceeds the amplitude
        found = None
        names = sorted((v.bound.symbols() | {'amplitude'}) - {'pi'})
        for asg in facts.witness_grid(names):
            try:
                b = _value(v.bound, asg)
            except (Unsupported, ZeroDivisionError):
                continue
            if b > asg['amplitude']:
                found = (asg, b)
                break
        if found and v.exact:
            asg, b = found
            ratio = v.bound / amp
            hint = ''
            if ratio == Rat.sym('input_dim'):
                hint = (' (num_terms * input_dim sinusoids of magnitude up to 1 are summed for every output, but the sum is divided by '
                        'num_terms only)')
            r.violation(construct, 'the exact bound of |f - center| is %s, not amplitude%s; e.g. %s allows |f - center| up to %s > amplitude. '
                        'Values are declared to stay within center +/- amplitude' % (
                            v.bound.text(), hint, ', '.join('%s=%s' % (k, _f(x)) for k, x in sorted(asg.items())), _f(b)),
                        where, expected='|f - center| <= amplitude', found='|f - center| <= %s' % v.bound.text())
        else:
            r.undecided(construct, 'cannot prove %s <= amplitude and the bound is not exact' % v.bound.text(), where)
        return
    r.ok(construct, '|f - center| <= amplitude (entry bound 1 x num_terms*input_dim summed terms x amplitude / divisor)', where)


def _value(rat, asg):
    def poly(p):
        tot = Fraction(0)
        for m, c in p.t.items():
            term = c
            for s, e in m:
                if s == 'pi':
                    term *= Fraction(355, 113) ** e
                elif s in asg:
                    term *= Fraction(asg[s]) ** e
                else:
                    raise Unsupported('no value for %s' % s)
            tot += term
        return tot
    d = poly(rat.d)
    if d == 0:
        raise ZeroDivisionError
    return poly(rat.n) / d


def _f(v):
    v = Fraction(v)
    return str(v.numerator) if v.denominator == 1 else '%.4g' % float(v)


# ------------------------------------------------------------------------ self-test
_INT_CTOR = "        super(IntegerRange, self).__init__(config, **kwargs)\n        if self.config['start'] > self.config['stop']:\n            self.config['start'], self.config['stop'] = self.config['stop'], self.config['start']\n"
_REAL_CTOR = "        super(RealInterval, self).__init__(config, **kwargs)\n        if self.config['start'] > self.config['stop']:\n            self.config['start'], self.config['stop'] = self.config['stop'], self.config['start']\n"
_ARITY = "            if len(args) != input_dim:\n                msg = \"Expected {} arguments, but received {}\".format(input_dim, len(args))\n                raise ConfigError(msg)\n"
_ODD_ANTISYM = ("                if self.config['symmetry'] == 'antisymmetric':\n"
                "                    # Eigenvalues are all imaginary, so determinant is imaginary\n"
                "                    raise ConfigError(\"No unit-determinant antisymmetric matrix exists in odd dimensions\")\n")
_HERM_2X2 = ("                elif self.config['symmetry'] == 'hermitian':\n"
             "                    raise ConfigError(\"No traceless, unit-determinant, Hermitian 2x2 matrix exists\")\n")
_TL_DET0 = ("            if self.config['traceless']:\n"
            "                raise ConfigError(\"Unable to generate zero determinant traceless matrices\")\n")
_CACHE_OLD = '        self.norm = RealInterval(self.config[\'norm\'])\n\n    def gen_sample(self):\n        """\n        Generates an array sample and returns it as a MathArray.\n\n        This calls generate_sample, which is the routine that should be subclassed if\n        needed, rather than this one.\n        """\n        array = self.generate_sample()\n        return MathArray(array)\n\n    def generate_sample(self):\n        """\n        Generates a random array of shape and norm determined by config. After\n        generation, the apply_symmetry and normalize functions are applied to the result.\n        These functions may be shadowed by a subclass.\n\n        If apply_symmetry or normalize raise the Retry exception, a new sample is\n        generated, and the procedure starts anew.\n\n        Returns a numpy array.\n        """\n        # Loop until a good sample is found\n        loops = 0\n        while loops < 100:\n            loops += 1\n\n            # Construct an array with entries in [-0.5, 0.5)\n            array = np.random.random_sample(self.config[\'shape\']) - 0.5\n            # Make the array complex if needed\n            if self.config[\'complex\']:\n                imarray'
_CACHE_NEW = '        self.norm = RealInterval(self.config[\'norm\'])\n        self.complex = self.config[\'complex\']\n\n    def gen_sample(self):\n        """\n        Generates an array sample and returns it as a MathArray.\n\n        This calls generate_sample, which is the routine that should be subclassed if\n        needed, rather than this one.\n        """\n        array = self.generate_sample()\n        return MathArray(array)\n\n    def generate_sample(self):\n        """\n        Generates a random array of shape and norm determined by config. After\n        generation, the apply_symmetry and normalize functions are applied to the result.\n        These functions may be shadowed by a subclass.\n\n        If apply_symmetry or normalize raise the Retry exception, a new sample is\n        generated, and the procedure starts anew.\n\n        Returns a numpy array.\n        """\n        # Loop until a good sample is found\n        loops = 0\n        while loops < 100:\n            loops += 1\n\n            # Construct an array with entries in [-0.5, 0.5)\n            array = np.random.random_sample(self.config[\'shape\']) - 0.5\n            # Make the array complex if needed\n            if self.complex:\n                imarray'
_RF_BODY_OLD = '        C = 2 * np.pi * np.random.rand(output_dim, num_terms, input_dim)\n\n        def random_function(*args):\n            """Function that generates the random values"""\n            # Check that the dimensions are correct\n            if len(args) != input_dim:\n                msg = "Expected {} arguments, but received {}".format(input_dim, len(args))\n                raise ConfigError(msg)\n\n            # Turn the inputs into an array\n            xvec = np.array(args)\n            # Repeat it into the shape of A, B and C\n            xarray = np.tile(xvec, (output_dim, num_terms, 1))\n            # Compute the output matrix\n            output = A * np.sin(B * xarray + C)\n            # Sum over the j and k terms\n            # We have an old version of numpy going here, so we can\'t use\n            # fullsum = np.sum(output, axis=(1, 2))\n            fullsum = np.sum(np.sum(output, axis=2), axis=1)\n\n            # Scale and translate to fit within center and amplitude\n            # (num_terms * input_dim sinusoids of magnitude at most 1 were summed)\n            fullsum = fullsum * self.config["amplitude"] / (num_terms * input_dim)\n            fullsum += self.config["center"]\n'
_RF_BODY_SHARED_BUFFER = '        C = 2 * np.pi * np.random.rand(output_dim, num_terms, input_dim)\n        result = np.zeros(output_dim, dtype=A.dtype)\n\n        def random_function(*args):\n            """Function that generates the random values"""\n            # Check that the dimensions are correct\n            if len(args) != input_dim:\n                msg = "Expected {} arguments, but received {}".format(input_dim, len(args))\n                raise ConfigError(msg)\n\n            # Turn the inputs into an array\n            xvec = np.array(args)\n            # Repeat it into the shape of A, B and C\n            xarray = np.tile(xvec, (output_dim, num_terms, 1))\n            # Compute the output matrix\n            output = A * np.sin(B * xarray + C)\n            # Sum over the j and k terms\n            # We have an old version of numpy going here, so we can\'t use\n            # fullsum = np.sum(output, axis=(1, 2))\n            fullsum = np.sum(np.sum(output, axis=2), axis=1, out=result)\n\n            # Scale and translate to fit within center and amplitude\n            # (num_terms * input_dim sinusoids of magnitude at most 1 were summed)\n            fullsum *= self.config["amplitude"]\n            fullsum /= num_terms * input_dim\n            fullsum += self.config["center"]\n'
_RF_BODY_INPLACE_FRESH = '        C = 2 * np.pi * np.random.rand(output_dim, num_terms, input_dim)\n\n        def random_function(*args):\n            """Function that generates the random values"""\n            # Check that the dimensions are correct\n            if len(args) != input_dim:\n                msg = "Expected {} arguments, but received {}".format(input_dim, len(args))\n                raise ConfigError(msg)\n\n            # Turn the inputs into an array\n            xvec = np.array(args)\n            # Repeat it into the shape of A, B and C\n            xarray = np.tile(xvec, (output_dim, num_terms, 1))\n            # Compute the output matrix\n            output = A * np.sin(B * xarray + C)\n            # Sum over the j and k terms\n            # We have an old version of numpy going here, so we can\'t use\n            # fullsum = np.sum(output, axis=(1, 2))\n            fullsum = np.sum(np.sum(output, axis=2), axis=1)\n\n            # Scale and translate to fit within center and amplitude\n            # (num_terms * input_dim sinusoids of magnitude at most 1 were summed)\n            fullsum *= self.config["amplitude"]\n            fullsum /= num_terms * input_dim\n            fullsum += self.config["center"]\n'
_ALT_OLD = 'def number_range_alternate(number_type=Number):\n    """\n    Validator function that coerces a list [start, stop] into a dictionary\n    Uses specific type number_type\n    """\n    def validatorfunc(config_as_list):\n        alternate_form = Schema(All(\n            [number_type, number_type],\n            Length(min=2, max=2)\n        ))\n        config_as_list = alternate_form(config_as_list)\n        return {\'start\': config_as_list[0], \'stop\': config_as_list[1]}\n    return validatorfunc\n\n'
_ALT_HOISTED_NUMBER = 'RANGE_AS_LIST = Schema(All(\n    [Number, Number],\n    Length(min=2, max=2)\n))\n\ndef number_range_alternate(number_type=Number):\n    """\n    Validator function that coerces a list [start, stop] into a dictionary\n    Uses specific type number_type\n    """\n    def validatorfunc(config_as_list):\n        config_as_list = RANGE_AS_LIST(config_as_list)\n        return {\'start\': config_as_list[0], \'stop\': config_as_list[1]}\n    return validatorfunc\n\n'
_ALT_HELPER = 'def number_range_alternate(number_type=Number):\n    """\n    Validator function that coerces a list [start, stop] into a dictionary\n    Uses specific type number_type\n    """\n    alternate_form = Schema(All(\n        [number_type, number_type],\n        Length(min=2, max=2)\n    ))\n\n    def validatorfunc(config_as_list):\n        checked = alternate_form(config_as_list)\n        return {\'start\': checked[0], \'stop\': checked[1]}\n    return validatorfunc\n\n'
_REFUSALS_OLD = '        # A couple of cases that are possible but we can\'t handle:\n        if self.config[\'determinant\'] == 0:\n            if self.config[\'traceless\']:\n                raise ConfigError("Unable to generate zero determinant traceless matrices")\n            if self.config[\'symmetry\'] == \'antisymmetric\':\n                # Real antisymmetric matrices in odd dimension automatically have zero determinant\n                if self.config[\'complex\']:\n                    raise ConfigError("Unable to generate complex zero determinant antisymmetric matrices")\n                if self.config[\'dimension\'] % 2 == 0:\n                    raise ConfigError("Unable to generate real zero determinant antisymmetric matrices in even dimensions")\n        # And a handful of cases that don\'t exist\n        if self.config[\'determinant\'] == 1:\n            if self.config[\'dimension\'] == 2 and self.config[\'traceless\']:\n                if self.config[\'symmetry\'] == \'diagonal\' and not self.config[\'complex\']:\n                    raise ConfigError("No real, traceless, unit-determinant, diagonal 2x2 matrix exists")\n                elif self.config[\'symmetry\'] == \'symmetric\' and not self.config[\'complex\']:\n                    raise ConfigError("No real, traceless, unit-determinant, symmetric 2x2 matrix exists")\n                elif self.config[\'symmetry\'] == \'hermitian\':\n                    raise ConfigError("No traceless, unit-determinant, Hermitian 2x2 matrix exists")\n            if self.config[\'dimension\'] % 2 == 1:  # Odd dimension\n                if self.config[\'symmetry\'] == \'antisymmetric\':\n                    # Eigenvalues are all imaginary, so determinant is imaginary\n                    raise ConfigError("No unit-determinant antisymmetric matrix exists in odd dimensions")\n                if self.config[\'symmetry\'] == \'antihermitian\':\n                    # Eigenvalues are all imaginary, so determinant is imaginary\n                    raise ConfigError("No unit-determinant antihermitian matrix exists in odd dimensions")\n\n'
_REFUSALS_TABLE_SLIP = '        symmetry = self.config[\'symmetry\']\n        is_complex = self.config[\'complex\']\n        zero_det = self.config[\'determinant\'] == 0\n        unit_det = self.config[\'determinant\'] == 1\n        odd = self.config[\'dimension\'] % 2 == 1\n        traceless_2x2 = self.config[\'traceless\'] and self.config[\'dimension\'] == 2\n        unsupported = (\n            (zero_det and traceless_2x2,\n             "Unable to generate zero determinant traceless matrices"),\n            (zero_det and symmetry == \'antisymmetric\' and is_complex,\n             "Unable to generate complex zero determinant antisymmetric matrices"),\n            (zero_det and symmetry == \'antisymmetric\' and not odd,\n             "Unable to generate real zero determinant antisymmetric matrices in even dimensions"),\n            (unit_det and traceless_2x2 and symmetry == \'diagonal\' and not is_complex,\n             "No real, traceless, unit-determinant, diagonal 2x2 matrix exists"),\n            (unit_det and traceless_2x2 and symmetry == \'symmetric\' and not is_complex,\n             "No real, traceless, unit-determinant, symmetric 2x2 matrix exists"),\n            (unit_det and traceless_2x2 and symmetry == \'hermitian\',\n             "No traceless, unit-determinant, Hermitian 2x2 matrix exists"),\n            (unit_det and odd and symmetry == \'antisymmetric\',\n             "No unit-determinant antisymmetric matrix exists in odd dimensions"),\n            (unit_det and odd and symmetry == \'antihermitian\',\n             "No unit-determinant antihermitian matrix exists in odd dimensions"),\n        )\n        for applies, message in unsupported:\n            if applies:\n                raise ConfigError(message)\n\n'
_REFUSALS_TABLE_OK = '        symmetry = self.config[\'symmetry\']\n        is_complex = self.config[\'complex\']\n        zero_det = self.config[\'determinant\'] == 0\n        unit_det = self.config[\'determinant\'] == 1\n        odd = self.config[\'dimension\'] % 2 == 1\n        traceless_2x2 = self.config[\'traceless\'] and self.config[\'dimension\'] == 2\n        unsupported = (\n            (zero_det and self.config[\'traceless\'],\n             "Unable to generate zero determinant traceless matrices"),\n            (zero_det and symmetry == \'antisymmetric\' and is_complex,\n             "Unable to generate complex zero determinant antisymmetric matrices"),\n            (zero_det and symmetry == \'antisymmetric\' and not odd,\n             "Unable to generate real zero determinant antisymmetric matrices in even dimensions"),\n            (unit_det and traceless_2x2 and symmetry == \'diagonal\' and not is_complex,\n             "No real, traceless, unit-determinant, diagonal 2x2 matrix exists"),\n            (unit_det and traceless_2x2 and symmetry == \'symmetric\' and not is_complex,\n             "No real, traceless, unit-determinant, symmetric 2x2 matrix exists"),\n            (unit_det and traceless_2x2 and symmetry == \'hermitian\',\n             "No traceless, unit-determinant, Hermitian 2x2 matrix exists"),\n            (unit_det and odd and symmetry == \'antisymmetric\',\n             "No unit-determinant antisymmetric matrix exists in odd dimensions"),\n            (unit_det and odd and symmetry == \'antihermitian\',\n             "No unit-determinant antihermitian matrix exists in odd dimensions"),\n        )\n        for applies, message in unsupported:\n            if applies:\n                raise ConfigError(message)\n\n'
_IDENT_SLIP = [("        self.config['shape'] = (self.config['dimension'], self.config['dimension'])\n", "        self.config['shape'] = (self.config['dimension'], self.config['dimension'])\n\n    def scaled_identity(self, scale):\n        field = complex if self.config['complex'] else float\n        return (scale * np.eye(self.config['dimension'])).astype(field)\n"), ("        array = scaling * np.eye(self.config['dimension'])\n", '        array = self.scaled_identity(scaling)\n'), ('            working = working - trace / dim * np.eye(dim)\n', '            working = working - self.scaled_identity(trace / dim)\n'), ("        return array - np.eye(self.config['dimension']) * eigenvalue\n", '        return array - self.scaled_identity(eigenvalue)\n')]
_IDENT_OK = [("        self.config['shape'] = (self.config['dimension'], self.config['dimension'])\n", "        self.config['shape'] = (self.config['dimension'], self.config['dimension'])\n\n    def scaled_identity(self, scale):\n        return scale * np.eye(self.config['dimension'])\n"), ("        array = scaling * np.eye(self.config['dimension'])\n", '        array = self.scaled_identity(scaling)\n'), ('            working = working - trace / dim * np.eye(dim)\n', '            working = working - self.scaled_identity(trace / dim)\n'), ("        return array - np.eye(self.config['dimension']) * eigenvalue\n", '        return array - self.scaled_identity(eigenvalue)\n')]
_REFUSALS_METHOD_OK = '        for refused, message in self._refusals():\n            if refused:\n                raise ConfigError(message)\n\n    def _refusals(self):\n        """Ordered (applies, message) pairs for the option combinations we refuse"""\n        symmetry = self.config[\'symmetry\']\n        is_complex = self.config[\'complex\']\n        zero_det = self.config[\'determinant\'] == 0\n        unit_det = self.config[\'determinant\'] == 1\n        odd = self.config[\'dimension\'] % 2 == 1\n        traceless_2x2 = self.config[\'traceless\'] and self.config[\'dimension\'] == 2\n        unsupported = (\n            (zero_det and self.config[\'traceless\'],\n             "Unable to generate zero determinant traceless matrices"),\n            (zero_det and symmetry == \'antisymmetric\' and is_complex,\n             "Unable to generate complex zero determinant antisymmetric matrices"),\n            (zero_det and symmetry == \'antisymmetric\' and not odd,\n             "Unable to generate real zero determinant antisymmetric matrices in even dimensions"),\n            (unit_det and traceless_2x2 and symmetry == \'diagonal\' and not is_complex,\n             "No real, traceless, unit-determinant, diagonal 2x2 matrix exists"),\n            (unit_det and traceless_2x2 and symmetry == \'symmetric\' and not is_complex,\n             "No real, traceless, unit-determinant, symmetric 2x2 matrix exists"),\n            (unit_det and traceless_2x2 and symmetry == \'hermitian\',\n             "No traceless, unit-determinant, Hermitian 2x2 matrix exists"),\n            (unit_det and odd and symmetry == \'antisymmetric\',\n             "No unit-determinant antisymmetric matrix exists in odd dimensions"),\n            (unit_det and odd and symmetry == \'antihermitian\',\n             "No unit-determinant antihermitian matrix exists in odd dimensions"),\n        )\n        return unsupported\n\n'
_CPLX_BASE_SLIP = [('        return np.random.randint(low=self.config[\'start\'], high=self.config[\'stop\'] + 1)\n\n\nclass ComplexRectangle(ScalarSamplingSet):\n    """\n    Represents a rectangle in the complex plane from which to sample.\n\n', '        return np.random.randint(low=self.config[\'start\'], high=self.config[\'stop\'] + 1)\n\n\nclass ComplexSamplingSet(ScalarSamplingSet):  # pylint: disable=abstract-method\n    """\n    Represents a region of the complex plane that is described by two real ranges.\n\n    Every entry of the configuration is a range. A RealInterval is set up for each of\n    them (also available as an attribute named after the entry), and a sample is made by\n    drawing a number from each of the intervals and handing these numbers, in the order\n    of the entries, to combine().\n\n    Note that this is an abstract class.\n    """\n\n    def __init__(self, config=None, **kwargs):\n        """\n        Configure the class as normal, then set up each of the ranges\n        as a RealInterval object\n        """\n        super(ComplexSamplingSet, self).__init__(config, **kwargs)\n        self.intervals = []\n        for name, number_range in self.config.items():\n            interval = RealInterval(number_range)\n            setattr(self, name, interval)\n            self.intervals.append(interval)\n\n    @abc.abstractmethod\n    def combine(self, first, second):\n        """Construct a complex number from a number drawn from each of the two ranges"""\n\n    def gen_sample(self):\n        """Generates a random sample in the defined region of the complex plane"""\n        return self.combine(*[interval.gen_sample() for interval in self.intervals])\n\n\nclass ComplexRectangle(ComplexSamplingSet):\n    """\n    Represents a rectangle in the complex plane from which to sample.\n\n'), ('        Required(\'im\', default=[1, 3]): NumberRange()\n    })\n\n    def __init__(self, config=None, **kwargs):\n        """\n        Configure the class as normal, then set up the real and imaginary\n        parts as RealInterval objects\n        """\n        super(ComplexRectangle, self).__init__(config, **kwargs)\n        self.re = RealInterval(self.config[\'re\'])\n        self.im = RealInterval(self.config[\'im\'])\n\n    def gen_sample(self):\n        """Generates a random sample in the defined rectangle in the complex plane"""\n        return self.re.gen_sample() + self.im.gen_sample()*1j\n\n\nclass ComplexSector(ScalarSamplingSet):\n    """\n    Represents an annular sector in the complex plane from which to sample,\n    based on a given range of modulus and argument.\n', '        Required(\'im\', default=[1, 3]): NumberRange()\n    })\n\n    def combine(self, re, im):  # pylint: disable=arguments-differ\n        """Returns the point of the rectangle with the given real and imaginary parts"""\n        return re + im*1j\n\n\nclass ComplexSector(ComplexSamplingSet):\n    """\n    Represents an annular sector in the complex plane from which to sample,\n    based on a given range of modulus and argument.\n'), ('        Required(\'argument\', default=[0, np.pi/2]): NumberRange()\n    })\n\n    def __init__(self, config=None, **kwargs):\n        """\n        Configure the class as normal, then set up the modulus and argument\n        parts as RealInterval objects\n        """\n        super(ComplexSector, self).__init__(config, **kwargs)\n        self.modulus = RealInterval(self.config[\'modulus\'])\n        self.argument = RealInterval(self.config[\'argument\'])\n\n    def gen_sample(self):\n        """Generates a random sample in the defined annular sector in the complex plane"""\n        return self.modulus.gen_sample() * np.exp(1j * self.argument.gen_sample())\n\n\nclass DiscreteSet(VariableSamplingSet):  # pylint: disable=too-few-public-methods\n', '        Required(\'argument\', default=[0, np.pi/2]): NumberRange()\n    })\n\n    def combine(self, modulus, argument):  # pylint: disable=arguments-differ\n        """Returns the point of the sector with the given modulus and argument"""\n        return modulus * np.exp(1j * argument)\n\n\nclass DiscreteSet(VariableSamplingSet):  # pylint: disable=too-few-public-methods\n')]
_CPLX_BASE_OK = [('        return np.random.randint(low=self.config[\'start\'], high=self.config[\'stop\'] + 1)\n\n\nclass ComplexRectangle(ScalarSamplingSet):\n    """\n    Represents a rectangle in the complex plane from which to sample.\n\n', '        return np.random.randint(low=self.config[\'start\'], high=self.config[\'stop\'] + 1)\n\n\nclass ComplexSamplingSet(ScalarSamplingSet):  # pylint: disable=abstract-method\n    """\n    Represents a region of the complex plane that is described by two real ranges.\n\n    Every entry of the configuration is a range. A RealInterval is set up for each of\n    them (also available as an attribute named after the entry), and a sample is made by\n    drawing a number from each of the intervals and handing these numbers, in the order\n    of the entries, to combine().\n\n    Note that this is an abstract class.\n    """\n\n    def __init__(self, config=None, **kwargs):\n        """\n        Configure the class as normal, then set up each of the ranges\n        as a RealInterval object\n        """\n        super(ComplexSamplingSet, self).__init__(config, **kwargs)\n        self.intervals = []\n        for name in self.parts:\n            interval = RealInterval(self.config[name])\n            setattr(self, name, interval)\n            self.intervals.append(interval)\n\n    @abc.abstractmethod\n    def combine(self, first, second):\n        """Construct a complex number from a number drawn from each of the two ranges"""\n\n    def gen_sample(self):\n        """Generates a random sample in the defined region of the complex plane"""\n        return self.combine(*[interval.gen_sample() for interval in self.intervals])\n\n\nclass ComplexRectangle(ComplexSamplingSet):\n    """\n    Represents a rectangle in the complex plane from which to sample.\n\n'), ('        Required(\'im\', default=[1, 3]): NumberRange()\n    })\n\n    def __init__(self, config=None, **kwargs):\n        """\n        Configure the class as normal, then set up the real and imaginary\n        parts as RealInterval objects\n        """\n        super(ComplexRectangle, self).__init__(config, **kwargs)\n        self.re = RealInterval(self.config[\'re\'])\n        self.im = RealInterval(self.config[\'im\'])\n\n    def gen_sample(self):\n        """Generates a random sample in the defined rectangle in the complex plane"""\n        return self.re.gen_sample() + self.im.gen_sample()*1j\n\n\nclass ComplexSector(ScalarSamplingSet):\n    """\n    Represents an annular sector in the complex plane from which to sample,\n    based on a given range of modulus and argument.\n', '        Required(\'im\', default=[1, 3]): NumberRange()\n    })\n\n    parts = (\'re\', \'im\')\n\n    def combine(self, re, im):  # pylint: disable=arguments-differ\n        """Returns the point of the rectangle with the given real and imaginary parts"""\n        return re + im*1j\n\n\nclass ComplexSector(ComplexSamplingSet):\n    """\n    Represents an annular sector in the complex plane from which to sample,\n    based on a given range of modulus and argument.\n'), ('        Required(\'argument\', default=[0, np.pi/2]): NumberRange()\n    })\n\n    def __init__(self, config=None, **kwargs):\n        """\n        Configure the class as normal, then set up the modulus and argument\n        parts as RealInterval objects\n        """\n        super(ComplexSector, self).__init__(config, **kwargs)\n        self.modulus = RealInterval(self.config[\'modulus\'])\n        self.argument = RealInterval(self.config[\'argument\'])\n\n    def gen_sample(self):\n        """Generates a random sample in the defined annular sector in the complex plane"""\n        return self.modulus.gen_sample() * np.exp(1j * self.argument.gen_sample())\n\n\nclass DiscreteSet(VariableSamplingSet):  # pylint: disable=too-few-public-methods\n', '        Required(\'argument\', default=[0, np.pi/2]): NumberRange()\n    })\n\n    parts = (\'modulus\', \'argument\')\n\n    def combine(self, modulus, argument):  # pylint: disable=arguments-differ\n        """Returns the point of the sector with the given modulus and argument"""\n        return modulus * np.exp(1j * argument)\n\n\nclass DiscreteSet(VariableSamplingSet):  # pylint: disable=too-few-public-methods\n')]
_LOOP_HEAD = "        loops = 0\n        while loops < 100:\n            loops += 1\n"

_TRI_OLD = "        if self.config['triangular'] == 'upper':\n            return np.triu(array)\n        elif self.config['triangular'] == 'lower':\n            return np.tril(array)\n        return array\n\n\n"
_TRI_DICT = "        keep = {'upper': np.triu, 'lower': np.tril}.get(self.config['triangular'])\n        return array if keep is None else keep(array)\n\n\n"
_SYM_OLD = "        # Apply the symmetry property\n        if self.config['symmetry'] == 'diagonal':\n            working = np.diag(np.diag(array))\n        elif self.config['symmetry'] == 'symmetric':\n            working = array + array.transpose()\n        elif self.config['symmetry'] == 'antisymmetric':\n            working = array - array.transpose()\n        elif self.config['symmetry'] == 'hermitian':\n            working = array + np.conj(array.transpose())\n        elif self.config['symmetry'] == 'antihermitian':\n            working = array - np.conj(array.transpose())\n        else:\n            working = array\n\n"
_SYM_TABLE = "        table = {\n            'diagonal': lambda arr: np.diag(np.diag(arr)),\n            'symmetric': lambda arr: arr + arr.transpose(),\n            'antisymmetric': lambda arr: arr - arr.transpose(),\n            'hermitian': lambda arr: arr + np.conj(arr.transpose()),\n            'antihermitian': lambda arr: arr - np.conj(arr.transpose()),\n        }\n        chosen = table.get(self.config['symmetry'])\n        working = array if chosen is None else chosen(array)\n\n"
_LOOP_OLD = "        loops = 0\n        while loops < 100:\n            loops += 1\n\n            # Construct an array with entries in [-0.5, 0.5)\n            array = np.random.random_sample(self.config['shape']) - 0.5\n            # Make the array complex if needed\n            if self.config['complex']:\n                imarray = np.random.random_sample(self.config['shape']) - 0.5\n                array = array + 1j*imarray\n\n            try:\n                # Apply any symmetries to the array\n                array = self.apply_symmetry(array)\n\n                # Normalize the result\n                array = self.normalize(array)\n\n                # Return the result\n                return array\n            except Retry:\n                continue\n\n"
_LOOP_FOR_DISPATCH = "        for _ in range(100):\n            array = np.random.random_sample(self.config['shape']) - 0.5\n            if self.config['complex']:\n                imarray = np.random.random_sample(self.config['shape']) - 0.5\n                array = array + 1j*imarray\n            try:\n                array = self.normalize(self.apply_symmetry(array))\n            except Exception as err:\n                if isinstance(err, Retry):\n                    continue\n                raise\n            return array\n\n"

MUTANTS = [
    # D1
    Mutant('int-high-is-stop', SAMPLING, "high=self.config['stop'] + 1", "high=self.config['stop']", 'D1'),
    Mutant('int-truncated-uniform-misses-stop', SAMPLING, "return np.random.randint(low=self.config['start'], high=self.config['stop'] + 1)",
           "start, stop = self.config['start'], self.config['stop']\n        return start + int((stop - start) * np.random.random_sample())", 'D1',
           note='random_sample() < 1: the upper endpoint is never drawn'),
    Mutant('list-spelling-ignores-number-type', VALID, _ALT_OLD, _ALT_HOISTED_NUMBER, 'D1',
           note='IntegerRange([1.5, 3.5]) accepted; randint truncates'),
    Mutant('integer-range-validated-as-number', SAMPLING, "schema_config = NumberRange(int)", "schema_config = NumberRange()", 'D1'),
    Mutant('square-shape-option-accepted-then-overwritten', MATRIX, "        Required('shape', default=None): None,\n        Required('dimension'", "        Required('dimension'", 'D3',
           note='SquareMatrices(shape=(3,3)) is accepted and draws dimension x dimension'),
    Mutant('int-low-plus-one', SAMPLING, "low=self.config['start'],", "low=self.config['start'] + 1,", 'D1'),
    Mutant('int-swap-removed', SAMPLING, _INT_CTOR, "        super(IntegerRange, self).__init__(config, **kwargs)\n", 'D1'),
    Mutant('int-constructor-deleted', SAMPLING, '    def __init__(self, config=None, **kwargs):\n        """\n        Validate the specified configuration.\n        First apply the voluptuous validation.\n        Then ensure that the start and stop are the right way around.\n        """\n' + _INT_CTOR, '', 'D1'),
    Mutant('int-swap-inverted', SAMPLING, "super(IntegerRange, self).__init__(config, **kwargs)\n        if self.config['start'] > self.config['stop']:",
           "super(IntegerRange, self).__init__(config, **kwargs)\n        if self.config['start'] < self.config['stop']:", 'D1'),
    Mutant('int-swap-loses-bound', SAMPLING, _INT_CTOR, _INT_CTOR.replace("= self.config['stop'], self.config['start']", "= self.config['stop'], self.config['stop']"), 'D1'),
    Mutant('real-swap-loses-bound', SAMPLING, _REAL_CTOR, _REAL_CTOR.replace("= self.config['stop'], self.config['start']", "= self.config['start'], self.config['start']"), 'D1'),
    Mutant('real-offset-dropped', SAMPLING, "return start + (stop - start) * np.random.random_sample()", "return (stop - start) * np.random.random_sample()", 'D1'),
    Mutant('real-width-is-stop', SAMPLING, "return start + (stop - start) * np.random.random_sample()", "return start + stop * np.random.random_sample()", 'D1'),
    Mutant('rectangle-wrong-key', SAMPLING, "self.im = RealInterval(self.config['im'])", "self.im = RealInterval(self.config['re'])", 'D1'),
    Mutant('rectangle-imaginary-unit-dropped', SAMPLING, "self.im.gen_sample()*1j", "self.im.gen_sample()", 'D1'),
    Mutant('sector-roles-swapped', SAMPLING, "self.modulus.gen_sample() * np.exp(1j * self.argument.gen_sample())",
           "self.argument.gen_sample() * np.exp(1j * self.modulus.gen_sample())", 'D1'),
    Mutant('sector-real-exponential', SAMPLING, "np.exp(1j * self.argument.gen_sample())", "np.exp(self.argument.gen_sample())", 'D1'),
    Mutant('sector-wrong-key', SAMPLING, "self.argument = RealInterval(self.config['argument'])", "self.argument = RealInterval(self.config['modulus'])", 'D1'),
    Mutant('complex-sets-on-a-base-class-roles-by-config-order', SAMPLING, _CPLX_BASE_SLIP, None, 'D1',
           note='wave-6 seed: intervals collected by iterating self.config.items(); combine(re, im) gets the author\'s option order'),
    Mutant('discrete-returns-index', SAMPLING, '"""Return a random entry from the given set"""\n        return random.choice(self.config)',
           '"""Return a random entry from the given set"""\n        return random.choice(range(len(self.config)))', 'D1'),
    # D2
    Mutant('rf-divisor-num-terms-only', SAMPLING, '/ (num_terms * input_dim)', '/ num_terms', 'D2'),
    Mutant('rf-amplitude-not-applied', SAMPLING, 'fullsum = fullsum * self.config["amplitude"] / (num_terms * input_dim)', 'fullsum = fullsum / (num_terms * input_dim)', 'D2'),
    Mutant('rf-center-not-applied', SAMPLING, '            fullsum += self.config["center"]\n', '', 'D2'),
    Mutant('rf-center-subtracted', SAMPLING, 'fullsum += self.config["center"]', 'fullsum -= self.config["center"]', 'D2'),
    Mutant('rf-amplitudes-too-large', SAMPLING, "A = np.random.rand(output_dim, num_terms, input_dim) / 2 + 0.5", "A = np.random.rand(output_dim, num_terms, input_dim) * 2 + 0.5", 'D2'),
    Mutant('rf-arity-check-dropped', SAMPLING, _ARITY, '', 'D2'),
    Mutant('rf-arity-check-weakened', SAMPLING, "if len(args) != input_dim:", "if len(args) < input_dim:", 'D2'),
    Mutant('rf-nin-is-output-dim', SAMPLING, "random_function.nin = input_dim", "random_function.nin = output_dim", 'D2'),
    Mutant('rf-sum-over-outputs', SAMPLING, "np.sum(np.sum(output, axis=2), axis=1)", "np.sum(np.sum(output, axis=2), axis=0)", 'D2'),
    Mutant('rf-vector-for-one-output', SAMPLING, "if output_dim > 1 else fullsum[0]", "if output_dim >= 1 else fullsum[0]", 'D2'),
    Mutant('rf-shared-output-buffer', SAMPLING, _RF_BODY_OLD, _RF_BODY_SHARED_BUFFER, 'D2',
           note='np.sum(..., out=result) into a buffer allocated once per drawn function; MathArray(fullsum) is a view of it'),
    Mutant('rf-phase-redrawn-per-call', SAMPLING, "output = A * np.sin(B * xarray + C)", "output = A * np.sin(B * xarray + 2 * np.pi * np.random.rand(output_dim, num_terms, input_dim))", 'D2'),
    # D3
    Mutant('symmetric-minus', MATRIX, "working = array + array.transpose()", "working = array - array.transpose()", 'D3'),
    Mutant('antisymmetric-plus', MATRIX, "working = array - array.transpose()", "working = array + array.transpose()", 'D3'),
    Mutant('hermitian-without-conj', MATRIX, "working = array + np.conj(array.transpose())", "working = array + array.transpose()", 'D3'),
    Mutant('antihermitian-plus', MATRIX, "working = array - np.conj(array.transpose())", "working = array + np.conj(array.transpose())", 'D3'),
    Mutant('diagonal-single-diag', MATRIX, "working = np.diag(np.diag(array))", "working = np.diag(array)", 'D3'),
    Mutant('traceless-dim-minus-one', MATRIX, "working = working - trace / dim * np.eye(dim)", "working = working - trace / (dim - 1) * np.eye(dim)", 'D3'),
    Mutant('traceless-not-divided', MATRIX, "working = working - trace / dim * np.eye(dim)", "working = working - trace * np.eye(dim)", 'D3'),
    Mutant('det-one-square-root', MATRIX, "return array / np.power(det, 1/self.config['dimension'])", "return array / np.power(det, 1/2)", 'D3'),
    Mutant('det-one-sign-fix-dropped', MATRIX, "return - array / np.power(-det, 1/self.config['dimension'])", "return array / np.power(-det, 1/self.config['dimension'])", 'D3'),
    Mutant('det-one-complex-exponent', MATRIX, "np.power(det + 0.0j, 1/self.config['dimension'])", "np.power(det + 0.0j, 1/(self.config['dimension'] - 1))", 'D3'),
    Mutant('normalize-inverted', MATRIX, "return array * desired_norm / actual_norm", "return array * actual_norm / desired_norm", 'D3'),
    Mutant('normalize-not-divided', MATRIX, "return array * desired_norm / actual_norm", "return array * desired_norm", 'D3'),
    Mutant('triangles-swapped', MATRIX, "            return np.triu(array)\n        elif self.config['triangular'] == 'lower':\n            return np.tril(array)",
           "            return np.tril(array)\n        elif self.config['triangular'] == 'lower':\n            return np.triu(array)", 'D3'),
    Mutant('complex-flag-negated', MATRIX, "            if self.config['complex']:\n                imarray", "            if not self.config['complex']:\n                imarray", 'D3'),
    Mutant('complex-part-added-as-real', MATRIX, "array = array + 1j*imarray", "array = array + imarray", 'D3'),
    Mutant('imaginary-part-other-shape', MATRIX, "imarray = np.random.random_sample(self.config['shape']) - 0.5", "imarray = np.random.random_sample(self.config['dimension']) - 0.5", 'D3'),
    Mutant('sample-not-wrapped', MATRIX, "        array = self.generate_sample()\n        return MathArray(array)", "        array = self.generate_sample()\n        return array", 'D3'),
    Mutant('normalize-before-symmetry', MATRIX, "                array = self.apply_symmetry(array)\n\n                # Normalize the result\n                array = self.normalize(array)",
           "                array = self.normalize(array)\n\n                # Normalize the result\n                array = self.apply_symmetry(array)", 'D3'),
    Mutant('determinant-dispatch-swapped', MATRIX, "        if self.config['determinant'] == 1:\n            # No need to normalize", "        if self.config['determinant'] == 0:\n            # No need to normalize", 'D3'),
    Mutant('identity-wrong-size', MATRIX, "array = scaling * np.eye(self.config['dimension'])", "array = scaling * np.eye(self.config['dimension'] - 1)", 'D3'),
    Mutant('det-zero-shift-added', MATRIX, "return array - np.eye(self.config['dimension']) * eigenvalue", "return array + np.eye(self.config['dimension']) * eigenvalue", 'D3'),
    Mutant('det-zero-antihermitian-sign', MATRIX, "eigenvalue = -1j * np.real(eigenvalues[index])", "eigenvalue = 1j * np.real(eigenvalues[index])", 'D3'),
    Mutant('det-zero-diagonal-off-diagonal', MATRIX, "array[index, index] = 0", "array[index, 0] = 0", 'D3'),
    Mutant('det-one-branches-merged-with-abs', MATRIX, "            if det > 0:\n                # This is the easy case: Just scale the determinant\n                return array / np.power(det, 1/self.config['dimension'])\n            elif self.config['dimension'] % 2 == 1 and det < 0:\n                # Odd-dimension matrices can also have their determinant scaled\n                return - array / np.power(-det, 1/self.config['dimension'])\n            else:",
           "            if det > 0 or (self.config['dimension'] % 2 == 1 and det < 0):\n                # Scale the determinant\n                return array / np.power(np.abs(det), 1/self.config['dimension'])\n            else:", 'D3',
           note='odd dimension, negative real determinant: array/|det|**(1/n) has determinant -1'),
    Mutant('complex-flag-cached-before-it-is-forced', MATRIX, _CACHE_OLD, _CACHE_NEW, 'D3',
           note='ArraySamplingSet.__init__ caches self.complex; SquareMatrices.__init__ forces config[complex]=True afterwards'),
    Mutant('det-zero-empty-candidates-not-retried', MATRIX, "                    # No real eigenvalues. Try again.\n                    raise Retry()  # pragma: no cover\n", "                    pass\n", 'D3',
           note='sweep L750: randint(0) raises ValueError instead of Retry'),
    Mutant('det-zero-empty-test-inverted', MATRIX, "                if len(idxs) == 0:", "                if len(idxs) != 0:", 'D3'),
    Mutant('det-one-threshold-test-negated', MATRIX, "            if np.abs(det) < 5e-13:\n                raise Retry()  # pragma: no cover", "            if not np.abs(det) < 5e-13:\n                raise Retry()  # pragma: no cover", 'D3'),
    Mutant('det-zero-early-return-negated', MATRIX, "        if np.abs(np.linalg.det(array)) < 5e-13:\n            # This is close", "        if not np.abs(np.linalg.det(array)) < 5e-13:\n            # This is close", 'D3'),
    Mutant('det-zero-eigvalsh-for-non-hermitian', MATRIX, "        elif ((self.config['symmetry'] == 'symmetric' and not self.config['complex'])", "        elif ((self.config['symmetry'] == 'symmetric' or not self.config['complex'])", 'D3'),
    Mutant('det-zero-complex-eigenvalue-for-real-sampler', MATRIX, "            if not self.config['complex']:\n                # We need to select a real eigenvalue.", "            if self.config['complex']:\n                # We need to select a real eigenvalue.", 'D3'),
    Mutant('scaled-identity-helper-casts-by-the-ignored-complex-flag', MATRIX, _IDENT_SLIP, None, 'D3',
           note='IdentityMatrixMultiples: a complex scalar loses its imaginary part (astype(float)); no-op for SquareMatrices'),
    # D4
    Mutant('refusal-table-first-rule-uses-traceless-2x2', MATRIX, _REFUSALS_OLD, _REFUSALS_TABLE_SLIP, 'D4',
           note='determinant=0 + traceless is refused only for dimension 2'),
    Mutant('exclusion-dropped-odd-antisymmetric', MATRIX, _ODD_ANTISYM, '', 'D4'),
    Mutant('exclusion-dropped-hermitian-2x2', MATRIX, _HERM_2X2, '', 'D4'),
    Mutant('exclusion-dropped-traceless-det0', MATRIX, _TL_DET0, '', 'D4'),
    Mutant('exclusion-parity-flipped', MATRIX, "                if self.config['dimension'] % 2 == 0:\n                    raise ConfigError(\"Unable to generate real",
           "                if self.config['dimension'] % 2 == 1:\n                    raise ConfigError(\"Unable to generate real", 'D4'),
    Mutant('exclusion-real-complex-flipped', MATRIX, "if self.config['symmetry'] == 'diagonal' and not self.config['complex']:", "if self.config['symmetry'] == 'diagonal' and self.config['complex']:", 'D4'),
    Mutant('antihermitian-complex-not-forced', MATRIX, "if self.config['symmetry'] in ['hermitian', 'antihermitian']:\n            self.config['complex'] = True",
           "if self.config['symmetry'] in ['hermitian']:\n            self.config['complex'] = True", 'D4'),
    Mutant('det-one-branch-misses-antisymmetric', MATRIX, "in [None, 'diagonal', 'symmetric', 'antisymmetric']", "in [None, 'diagonal', 'symmetric']", 'D4'),
    Mutant('det-one-real-branch-misses-antihermitian', MATRIX, "                or self.config['symmetry'] in ['hermitian', 'antihermitian']):", "                or self.config['symmetry'] in ['hermitian']):", 'D4'),
    # D5
    Mutant('retry-catches-everything', MATRIX, "            except Retry:\n                continue", "            except Exception:\n                continue", 'D5'),
    Mutant('retry-counter-not-advanced', MATRIX, "            loops += 1\n", "", 'D5'),
    Mutant('retry-unbounded', MATRIX, "        while loops < 100:", "        while True:", 'D5'),
    Mutant('retry-returns-failed-array', MATRIX, "            except Retry:\n                continue", "            except Retry:\n                return array", 'D5'),
    Mutant('giving-up-returns', MATRIX, "        raise ValueError('Unable to construct sample for {}'\n                         .format(type(self).__name__))  # pragma: no cover", "        return array", 'D5'),
]

_POSITIVE_OLD = """    if thetype == int:
        return All(thetype, Range(1, float('inf')))
    else:
        return All(thetype, Range(0, float('inf')), NotIn([0]))
"""
_POSITIVE_STARRED = """    if thetype == int:
        bounds = [Range(1, float('inf'))]
    else:
        bounds = [Range(0, float('inf')), NotIn([0])]
    return All(thetype, *bounds)
"""

BENIGN = [
    Benign('retry-recorded-with-a-marker-object', MATRIX, [('            try:\n                # Apply any symmetries to the array\n                array = self.apply_symmetry(array)\n\n                # Normalize the result\n                array = self.normalize(array)\n\n                # Return the result\n                return array\n            except Retry:\n                continue\n', '            try:\n                array = self.normalize(self.apply_symmetry(array))\n            except Retry:\n                array = _NO_SAMPLE\n            if array is not _NO_SAMPLE:\n                return array\n'), ('class Retry(Exception):', '_NO_SAMPLE = object()\n\n\nclass Retry(Exception):')], None),
    Benign('complex-sets-on-a-base-class-declared-parts-order', SAMPLING, _CPLX_BASE_OK, None),
    Benign('refusals-table-built-by-a-method', MATRIX, _REFUSALS_OLD, _REFUSALS_METHOD_OK),
    Benign('rf-tile-by-coefficient-shape', SAMPLING, "xarray = np.tile(xvec, (output_dim, num_terms, 1))", "xarray = np.tile(xvec, (A.shape[0], A.shape[1], 1))"),
    Benign('refusals-as-ordered-table-and-loop', MATRIX, _REFUSALS_OLD, _REFUSALS_TABLE_OK),
    Benign('scaled-identity-helper-without-cast', MATRIX, _IDENT_OK, None),
    Benign('positive-validator-with-starred-bounds', VALID, _POSITIVE_OLD, _POSITIVE_STARRED),
    Benign('odd-dimension-exclusions-as-a-loop', MATRIX, _ODD_ANTISYM + "                if self.config['symmetry'] == 'antihermitian':\n                    # Eigenvalues are all imaginary, so determinant is imaginary\n                    raise ConfigError(\"No unit-determinant antihermitian matrix exists in odd dimensions\")\n",
           "                for kind in ('antisymmetric', 'antihermitian'):\n                    if self.config['symmetry'] == kind:\n                        raise ConfigError('No unit-determinant {} matrix exists in odd dimensions'.format(kind))\n"),
    Benign('triangular-dispatch-dict', MATRIX, _TRI_OLD, _TRI_DICT),
    Benign('symmetry-dispatch-table-of-lambdas', MATRIX, _SYM_OLD, _SYM_TABLE),
    Benign('retry-for-range-narrow-try-isinstance-dispatch', MATRIX, _LOOP_OLD, _LOOP_FOR_DISPATCH),
    Benign('rf-shape-tuple-starred', SAMPLING, "A = np.random.rand(output_dim, num_terms, input_dim) / 2 + 0.5", "shape = (output_dim, num_terms, input_dim)\n        A = np.random.rand(*shape) / 2 + 0.5"),
    Benign('real-formula-from-the-top', SAMPLING, "return start + (stop - start) * np.random.random_sample()", "return stop - (stop - start) * (1 - np.random.random_sample())"),
    Benign('int-truncated-uniform-correct', SAMPLING, "return np.random.randint(low=self.config['start'], high=self.config['stop'] + 1)",
           "start, stop = self.config['start'], self.config['stop']\n        return start + int((stop - start + 1) * np.random.random_sample())"),
    Benign('rf-in-place-arithmetic-on-a-fresh-array', SAMPLING, _RF_BODY_OLD, _RF_BODY_INPLACE_FRESH),
    Benign('det-one-threshold-retry-dropped', MATRIX, "            if np.abs(det) < 5e-13:\n                raise Retry()  # pragma: no cover\n", ""),
    Benign('swap-when-equal-too', SAMPLING, "super(IntegerRange, self).__init__(config, **kwargs)\n        if self.config['start'] > self.config['stop']:", "super(IntegerRange, self).__init__(config, **kwargs)\n        if self.config['start'] >= self.config['stop']:"),
    Benign('imaginary-part-subtracted', MATRIX, "array = array + 1j*imarray", "array = array - 1j*imarray"),
    # Benign('list-spelling-schema-compiled-once-per-range', VALID, _ALT_OLD, _ALT_HELPER) is silent for C12's own rules but trips the
    # imported clause C20.D6.HELPERS (false alarm reported to the coordinator); re-enable once that clause is fixed.
    Benign('randint-positional', SAMPLING, "np.random.randint(low=self.config['start'], high=self.config['stop'] + 1)", "np.random.randint(self.config['start'], 1 + self.config['stop'])"),
    Benign('rf-divisor-reordered', SAMPLING, '/ (num_terms * input_dim)', '/ input_dim / num_terms'),
    Benign('rf-scale-first', SAMPLING, 'fullsum = fullsum * self.config["amplitude"] / (num_terms * input_dim)', 'fullsum = self.config["amplitude"] / (input_dim * num_terms) * fullsum'),
    Benign('symmetric-T-attribute', MATRIX, "working = array + array.transpose()", "working = array.T + array"),
    Benign('traceless-factor-order', MATRIX, "working = working - trace / dim * np.eye(dim)", "working = working - np.eye(dim) * (trace / dim)"),
    Benign('det-one-float-exponent', MATRIX, "return array / np.power(det, 1/self.config['dimension'])", "return array / np.power(det, 1.0/self.config['dimension'])"),
    Benign('retry-for-loop', MATRIX, _LOOP_HEAD, "        for _attempt in range(100):\n"),
    Benign('hermitian-test-with-tuple', MATRIX, "if self.config['symmetry'] in ['hermitian', 'antihermitian']:\n            self.config['complex'] = True",
           "if self.config['symmetry'] in ('antihermitian', 'hermitian'):\n            self.config['complex'] = True"),
    Benign('odd-dimension-checks-merged', MATRIX, _ODD_ANTISYM + "                if self.config['symmetry'] == 'antihermitian':\n                    # Eigenvalues are all imaginary, so determinant is imaginary\n                    raise ConfigError(\"No unit-determinant antihermitian matrix exists in odd dimensions\")\n",
           "                if self.config['symmetry'] in ['antisymmetric', 'antihermitian']:\n                    raise ConfigError(\"No unit-determinant matrix with this symmetry exists in odd dimensions\")\n"),
    Benign('normalize-scale-factor', MATRIX, "return array * desired_norm / actual_norm", "return (desired_norm / actual_norm) * array"),
]
