"""C06: pad_matrix returns a square matrix of size max(#rows, #columns) -- decided by a small abstract interpreter.

The function body is executed over *symbolic* sizes r (= len(matrix)) and c (= length of every row; rectangular input is
the documented precondition) in the three cases r < c, r == c, r > c, which is the complete domain of every size
comparison the function can make.  Integers are linear forms a*r + b*c + k whose sign is decided from the case; lists
are (length, set of row lengths).  Anything outside the supported subset is an AnalysisError (exit 2).
"""
import ast

from ..index import AnalysisError, short
from .. import nf, lib
from . import _c06_common as cm

CASES = ('r<c', 'r=c', 'r>c')


class Lin(object):
    """a*r + b*c + k"""
    def __init__(self, a=0, b=0, k=0):
        self.a, self.b, self.k = a, b, k

    def __add__(self, o):
        return Lin(self.a + o.a, self.b + o.b, self.k + o.k)

    def __sub__(self, o):
        return Lin(self.a - o.a, self.b - o.b, self.k - o.k)

    def scale(self, f):
        return Lin(self.a * f, self.b * f, self.k * f)

    def __repr__(self):
        parts = []
        for coef, sym in ((self.a, 'r'), (self.b, 'c')):
            if coef:
                parts.append(('%d*%s' % (coef, sym)) if coef != 1 else sym)
        if self.k or not parts:
            parts.append(str(self.k))
        return ' + '.join(parts)


def sign(x, case):
    """Sign of the linear form for all integers r, c >= 1 in the case (-1, 0, +1), or None when it is not constant."""
    # substitute: r<c: c = r + d (d >= 1);  r=c: c = r;  r>c: r = c + d (d >= 1)   ->   B*x + D*d + K with x, d >= 1
    if case == 'r<c':
        B, D, K = x.a + x.b, x.b, x.k
    elif case == 'r=c':
        B, D, K = x.a + x.b, 0, x.k
    else:
        B, D, K = x.a + x.b, x.a, x.k
    if B == 0 and D == 0:
        return (K > 0) - (K < 0)
    if B >= 0 and D >= 0:
        return 1 if B + D + K > 0 else None
    if B <= 0 and D <= 0:
        return -1 if B + D + K < 0 else None
    return None


def nonneg(x, case):
    """x >= 0 for all r, c >= 1 in the case?"""
    if case == 'r<c':
        B, D, K = x.a + x.b, x.b, x.k
    elif case == 'r=c':
        B, D, K = x.a + x.b, 0, x.k
    else:
        B, D, K = x.a + x.b, x.a, x.k
    return B >= 0 and D >= 0 and B + D + K >= 0


class PadViolation(Exception):
    pass


class Lst(object):
    def __init__(self, length, rows=None, fresh=True):
        self.length = length          # Lin
        self.rows = rows              # list of Lin (lengths of the element lists) or None for a flat list
        self.fresh = fresh


class IntSet(object):
    """a non-empty collection of integers given by the set of linear forms its elements take (count: how many, when known)"""
    def __init__(self, forms, count=None):
        self.forms = forms
        self.count = count


def _eq(a, b, case):
    return sign(a - b, case) == 0


class Interp(object):
    def __init__(self, fi, case):
        self.fi, self.case = fi, case
        self.env = {}
        p = fi.params
        self.matrix = p[1]
        self.env[p[1]] = Lst(Lin(1, 0, 0), [Lin(0, 1, 0)], fresh=False)
        for extra in p[2:]:
            self.env[extra] = 'scalar'
        self.result = None

    def bad(self, node, why='not supported'):
        raise AnalysisError('pad_matrix: `%s` %s by the size interpreter' % (short(node, 60), why))

    def mx(self, forms, node):
        best = forms[0]
        for f in forms[1:]:
            s = sign(f - best, self.case)
            if s is None:
                if nonneg(f - best, self.case):
                    best = f
                elif nonneg(best - f, self.case):
                    pass
                else:
                    self.bad(node, 'has an undecidable maximum')
            elif s > 0:
                best = f
        return best

    def ev(self, e):
        if isinstance(e, ast.Constant) and isinstance(e.value, int) and not isinstance(e.value, bool):
            return Lin(0, 0, e.value)
        if isinstance(e, ast.Name):
            if e.id not in self.env:
                self.bad(e, 'is an unknown name')
            return self.env[e.id]
        if isinstance(e, ast.Call) and isinstance(e.func, ast.Name):
            f = e.func.id
            if f == 'len' and len(e.args) == 1:
                v = self.ev(e.args[0])
                if isinstance(v, Lst):
                    return v.length
                self.bad(e)
            if f == 'max':
                dflt = lib.get_kw(e, 'default')
                if len(e.args) == 1:
                    v = self.ev(e.args[0])
                    if isinstance(v, IntSet):
                        return self.mx(list(v.forms), e)      # non-empty since r >= 1
                    self.bad(e)
                vals = [self.ev(a) for a in e.args]
                if all(isinstance(v, Lin) for v in vals):
                    return self.mx(vals, e)
                self.bad(e)
            if f == 'list' and len(e.args) == 1:
                v = self.ev(e.args[0])
                if isinstance(v, Lst):
                    return Lst(v.length, list(v.rows) if v.rows is not None else None)
            if f == 'range':
                return ('range', [self.ev(a) for a in e.args])
            self.bad(e)
        if isinstance(e, ast.Subscript) and isinstance(e.slice, ast.Slice) and e.slice.lower is None and e.slice.upper is None \
                and e.slice.step is None:
            v = self.ev(e.value)
            if isinstance(v, Lst):
                return Lst(v.length, list(v.rows) if v.rows is not None else None)
            self.bad(e)
        if isinstance(e, ast.BinOp):
            if isinstance(e.op, (ast.Div, ast.FloorDiv, ast.Mod, ast.Pow, ast.Sub)):
                l0, r0 = self.ev(e.left), self.ev(e.right)
                if isinstance(l0, Lst) or isinstance(r0, Lst):
                    raise PadViolation('`%s` applies %s to a list: TypeError as soon as this statement runs' % (short(e, 60), type(e.op).__name__))
            if isinstance(e.op, (ast.Add, ast.Sub)):
                l, r_ = self.ev(e.left), self.ev(e.right)
                if isinstance(l, Lin) and isinstance(r_, Lin):
                    return l + r_ if isinstance(e.op, ast.Add) else l - r_
                if isinstance(e.op, ast.Add) and isinstance(l, Lst) and isinstance(r_, Lst):
                    rows = None if l.rows is None and r_.rows is None else (l.rows or []) + (r_.rows or [])
                    return Lst(l.length + r_.length, rows)
                if isinstance(e.op, ast.Add) and isinstance(l, IntSet) and isinstance(r_, IntSet):
                    return IntSet(l.forms + r_.forms)
                self.bad(e)
            if isinstance(e.op, ast.Mult):
                l, r_ = self.ev(e.left), self.ev(e.right)
                if isinstance(l, Lin) and isinstance(r_, Lst):
                    l, r_ = r_, l
                if isinstance(l, Lst) and isinstance(r_, Lin):
                    s = sign(r_, self.case)
                    if s is None:
                        self.bad(e, 'repeats a list an undecidable number of times')
                    if not (l.length.a == 0 and l.length.b == 0):
                        self.bad(e)
                    count = r_ if s > 0 else Lin()
                    return Lst(count.scale(l.length.k), (list(l.rows) if (l.rows and s > 0) else ([] if l.rows is not None else None)))
                self.bad(e)
            self.bad(e)
        if isinstance(e, ast.List):
            elts = [self.ev(x) for x in e.elts]
            if all(isinstance(x, Lst) for x in elts) and elts:
                return Lst(Lin(0, 0, len(elts)), [x.length for x in elts])
            if all(isinstance(x, Lin) for x in elts) and elts:
                return IntSet(elts)
            return Lst(Lin(0, 0, len(elts)), None)       # a flat list of scalars
        if isinstance(e, (ast.ListComp, ast.GeneratorExp)) and len(e.generators) == 1 and not e.generators[0].ifs:
            g = e.generators[0]
            it = self.ev(g.iter)
            saved = dict(self.env)
            try:
                if isinstance(it, Lst) and it.rows is not None and isinstance(g.target, ast.Name):
                    if len({repr(x) for x in it.rows}) != 1:
                        self.bad(e)
                    self.env[g.target.id] = Lst(it.rows[0], None, fresh=it.fresh)
                    count = it.length
                elif isinstance(it, tuple) and it[0] == 'range' and len(it[1]) == 1:
                    s = sign(it[1][0], self.case)
                    if s is None:
                        self.bad(e, 'iterates an undecidable number of times')
                    count = it[1][0] if s > 0 else Lin()
                    if isinstance(g.target, ast.Name):
                        self.env[g.target.id] = 'scalar'
                else:
                    self.bad(e)
                elt = self.ev(e.elt)
            finally:
                self.env = saved
            if isinstance(elt, Lin):
                if sign(count, self.case) in (0, None):
                    self.bad(e)
                return IntSet([elt], count)
            if isinstance(elt, Lst):
                return Lst(count, [elt.length] if sign(count, self.case) != 0 else [])
            self.bad(e)
        self.bad(e)

    # -------------------------------------------------------------- statements
    def run(self, stmts):
        for s in stmts:
            if self.result is not None:
                return
            self.stmt(s)

    def append_rows(self, name, rows, count=None):
        tgt = self.env.get(name)
        if not isinstance(tgt, Lst) or tgt.rows is None and not (tgt.length.a == tgt.length.b == tgt.length.k == 0):
            raise AnalysisError('pad_matrix: rows are added to `%s`, which is not a list of rows' % name)
        if not tgt.fresh:
            raise AnalysisError('pad_matrix: `%s` aliases the argument' % name)
        add = count if count is not None else Lin(0, 0, len(rows))
        self.env[name] = Lst(tgt.length + add, (tgt.rows or []) + list(rows))

    def stmt(self, s):
        if isinstance(s, ast.Expr) and isinstance(s.value, ast.Constant):
            return
        if isinstance(s, ast.Pass):
            return
        if isinstance(s, ast.Assign) and len(s.targets) == 1 and isinstance(s.targets[0], ast.Name):
            self.env[s.targets[0].id] = self.ev(s.value)
            return
        if isinstance(s, ast.AugAssign) and isinstance(s.target, ast.Name) and isinstance(s.op, ast.Add):
            cur, v = self.env.get(s.target.id), self.ev(s.value)
            if isinstance(cur, Lin) and isinstance(v, Lin):
                self.env[s.target.id] = cur + v
            elif isinstance(cur, Lst) and isinstance(v, Lst):
                if cur.rows is None and v.rows is None:
                    self.env[s.target.id] = Lst(cur.length + v.length, None, cur.fresh)
                else:
                    self.append_rows(s.target.id, v.rows or [], v.length)
            else:
                self.bad(s)
            return
        if isinstance(s, ast.Expr) and isinstance(s.value, ast.Call) and isinstance(s.value.func, ast.Attribute) \
                and isinstance(s.value.func.value, ast.Name) and s.value.func.attr in ('append', 'extend') and len(s.value.args) == 1:
            name = s.value.func.value.id
            v = self.ev(s.value.args[0])
            if s.value.func.attr == 'append' and isinstance(v, Lst) and v.rows is None:
                self.append_rows(name, [v.length])
            elif s.value.func.attr == 'extend' and isinstance(v, Lst):
                cur = self.env.get(name)
                if isinstance(cur, Lst) and cur.rows is None and v.rows is None:
                    self.env[name] = Lst(cur.length + v.length, None, cur.fresh)
                else:
                    self.append_rows(name, v.rows or [], v.length)
            else:
                self.bad(s)
            return
        if isinstance(s, ast.If):
            t = self.test(s.test)
            self.run(s.body if t else s.orelse)
            return
        if isinstance(s, ast.For) and not s.orelse and cm.is_call_to(s.iter, 'zip', 2) and isinstance(s.target, ast.Tuple) \
                and len(s.target.elts) == 2 and all(isinstance(t, ast.Name) for t in s.target.elts):
            a, b = self.ev(s.iter.args[0]), self.ev(s.iter.args[1])
            if isinstance(a, Lst) and a.rows is not None and len({repr(x) for x in a.rows}) == 1 and isinstance(b, IntSet) \
                    and len({repr(x) for x in b.forms}) == 1 and getattr(b, 'count', None) is not None and _eq(b.count, a.length, self.case):
                self.env[s.target.elts[1].id] = b.forms[0]
                fake = ast.For(target=s.target.elts[0], iter=s.iter.args[0], body=s.body, orelse=[])
                self.loop(fake, Lst(a.rows[0], None, fresh=a.fresh), a.length)
                return
            self.bad(s)
        if isinstance(s, ast.For) and not s.orelse:
            it = self.ev(s.iter)
            if isinstance(it, Lst) and it.rows is not None and isinstance(s.target, ast.Name):
                if len({repr(x) for x in it.rows}) != 1:
                    self.bad(s)
                self.loop(s, Lst(it.rows[0], None, fresh=it.fresh), it.length)
                return
            if isinstance(it, tuple) and it[0] == 'range' and len(it[1]) == 1 and isinstance(s.target, ast.Name):
                sg = sign(it[1][0], self.case)
                if sg is None:
                    self.bad(s, 'iterates an undecidable number of times')
                self.loop(s, 'scalar', it[1][0] if sg > 0 else Lin())
                return
            self.bad(s)
        if isinstance(s, ast.While) and not s.orelse:
            # while len(X) < S: X += [row]   -> len(X) becomes max(len(X), S)
            t = nf.canon(s.test)
            if isinstance(t, ast.Compare) and isinstance(t.ops[0], ast.Lt) and cm.is_call_to(t.left, 'len', 1) and isinstance(t.left.args[0], ast.Name):
                name = t.left.args[0].id
                before = self.env.get(name)
                bound = self.ev(t.comparators[0])
                if isinstance(before, Lst) and isinstance(bound, Lin):
                    gap = bound - before.length
                    sg = sign(gap, self.case)
                    if sg is None:
                        self.bad(s, 'runs an undecidable number of times')
                    if sg <= 0:
                        return
                    snapshot = before.length
                    self.run(s.body)
                    after = self.env.get(name)
                    if not isinstance(after, Lst) or not _eq(after.length - snapshot, Lin(0, 0, 1), self.case):
                        self.bad(s, 'does not add exactly one row per iteration')
                    new_rows = after.rows[len(before.rows or []):]
                    self.env[name] = Lst(bound, (before.rows or []) + new_rows)
                    return
            self.bad(s)
        if isinstance(s, ast.Return):
            self.result = self.ev(s.value) if s.value is not None else None
            if self.result is None:
                self.bad(s)
            return
        self.bad(s)

    def loop(self, s, elem, count):
        """A loop whose iterations are alike: scalars must reach a fixpoint after one iteration, lists grow linearly."""
        if sign(count, self.case) == 0:
            return
        self.env[s.target.id] = elem
        before = dict(self.env)
        self.run(s.body)
        after1 = dict(self.env)
        self.run(s.body)
        for k, v in self.env.items():
            b, a1 = before.get(k), after1.get(k)
            if isinstance(v, Lin):
                if not (isinstance(a1, Lin) and _eq(v, a1, self.case)):
                    self.bad(s, 'changes the number `%s` on every iteration' % k)
            elif isinstance(v, Lst) and isinstance(b, Lst) and k != s.target.id:
                d1 = a1.length - b.length
                d2 = v.length - a1.length
                if not _eq(d1, d2, self.case):
                    self.bad(s, 'grows `%s` irregularly' % k)
                if sign(d1, self.case) != 0:
                    if d1.a or d1.b:
                        self.bad(s, 'grows `%s` by a symbolic amount per iteration' % k)
                    total = Lin(count.a * d1.k, count.b * d1.k, count.k * d1.k)
                    rows = None if a1.rows is None else (b.rows or []) + a1.rows[len(b.rows or []):]
                    after1[k] = Lst(b.length + total, rows, a1.fresh)
        self.env = after1

    def test(self, t):
        t = nf.canon(t)
        if isinstance(t, ast.UnaryOp) and isinstance(t.op, ast.Not):
            return not self.test(t.operand)
        if isinstance(t, ast.Compare) and len(t.ops) == 1:
            l, r_ = self.ev(t.left), self.ev(t.comparators[0])
            if isinstance(l, Lin) and isinstance(r_, Lin):
                sg = sign(l - r_, self.case)
                if sg is None:
                    self.bad(t, 'is not decided by the case %s' % self.case)
                op = type(t.ops[0])
                return {ast.Lt: sg < 0, ast.LtE: sg <= 0, ast.Gt: sg > 0, ast.GtE: sg >= 0, ast.Eq: sg == 0, ast.NotEq: sg != 0}[op]
        self.bad(t)


def check_pad_shape(r, idx):
    fi = idx.func(cm.MUNKRES + '.pad_matrix')
    words = {'r<c': 'fewer rows than columns (wide)', 'r=c': 'as many rows as columns', 'r>c': 'more rows than columns (tall)'}
    for case in CASES:
        construct = 'Munkres.pad_matrix: square result [%s]' % case
        it = Interp(fi, case)
        try:
            it.run(fi.node.body)
        except PadViolation as e:
            r.violation(construct, 'for an r x c matrix with %s: %s' % (words[case], e), fi.loc)
            continue
        res = it.result
        if not isinstance(res, Lst) or res.rows is None:
            raise AnalysisError('pad_matrix: the returned value is not a list of rows')
        want = Lin(0, 1, 0) if case == 'r<c' else Lin(1, 0, 0)
        problems = []
        if not _eq(res.length, want, case):
            problems.append('%s rows' % res.length)
        badrows = sorted({repr(x) for x in res.rows if not _eq(x, want, case)})
        if badrows:
            problems.append('rows of length %s' % ', '.join(badrows))
        if problems:
            r.violation(construct, 'for an r x c matrix with %s the padded matrix has %s instead of being %s x %s: the steps index an '
                        'n x n matrix (n = number of rows of the result), so columns beyond n are ignored or a row is too short '
                        '(IndexError)' % (words[case], ' and '.join(problems), want, want), fi.loc,
                        expected='max(r, c) rows of length max(r, c)', found='; '.join(problems))
        else:
            r.ok(construct, '%s rows of length %s' % (want, want), fi.loc)
