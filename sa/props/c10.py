"""C10 -- exact name usage, history-independent parsing."""
import ast

from ..index import AnalysisError, walk_own, unparse, short, ancestors, parent
from ..cfg import cfg_of
from ..effects import MutationSummaries, map_args, MUTATING_METHODS
from .. import nf, lib
from .. import grammar as G
from ..selftest import Mutant, Benign
from . import c03 as C03

ID = 'C10'
EXPR = 'mitxgraders/helpers/calc/expressions.py'
FILES = [EXPR, 'mitxgraders/helpers/math_helpers.py', 'mitxgraders/sampling.py',
         'mitxgraders/formulagrader/formulagrader.py', 'mitxgraders/formulagrader/integralgrader.py']

EXPLANATION = (
    "(D1) In the extracted grammar the recording parse actions sit on exactly three elements -- the variable "
    "group, the function group and the suffix word -- and each records the token of its element "
    "(tokens[0][0] for the groups, tokens[0] for the word) into the parser field that raw_parse hands to the "
    "MathExpression parameter stored as the attribute of the same kind (variables_used / functions_used / "
    "suffixes_used), which eval reports under the same name; (D2) in raw_parse every path from the start of "
    "parsing to an exit, exceptional ones included, passes reset_storage; (D3) the sets handed to a "
    "MathExpression are aliases of the parser's scratch sets, so reset_storage must rebind fresh sets and "
    "nothing but the three actions may mutate them; (D4) the cache store in MathParser.parse is reachable "
    "only through the normal completion of raw_parse, stores its result, and key and parse string are the "
    "same space-stripped string; (D5) a taint analysis over the package follows every read of "
    ".variables_used/.functions_used/.suffixes_used through locals, returns, tuple unpacking and call "
    "arguments and finds no mutation; fields of MathExpression are written only in __init__; eval_node does "
    "not mutate the cached tree; (D6) the grammar is deterministic where it records: alternatives that record "
    "have disjoint FIRST sets except function/variable, which share the name and are separated by '(' not in "
    "FOLLOW(variable); FIRST(body) and FOLLOW(construct) are disjoint for every repetition/optional that can "
    "record; no recording action inside Combine; (D7) one module-level PARSER, parse() and evaluator() go "
    "through MathParser.parse, nothing else fills the cache.")
NOT_DECIDED = ("pyparsing's engine (that actions fire exactly on matches, packrat off); equality of evaluated values "
               "across histories beyond 'same cached, never mutated object'; mutation of a usage set inside callees the "
               "index cannot resolve (external libraries, author callables) -- sets handed to resolved package functions "
               "are followed; D6 is a sufficient condition: overlaps other than function/variable and suffix/name "
               "confusion are reported as undecided, not as violations.")
ASSUMPTIONS = ["pyparsing fires a parse action once per successful match of its element, also inside attempts that are "
               "later abandoned; packrat memoisation is not enabled"]

MP = 'mitxgraders.helpers.calc.expressions.MathParser'
ME = 'mitxgraders.helpers.calc.expressions.MathExpression'
MOD = 'mitxgraders.helpers.calc.expressions'
KINDS = {'variable': 'variables_used', 'function': 'functions_used', 'suffix': 'suffixes_used'}
SETS = set(KINDS.values())
INPLACE_OPS = (ast.BitOr, ast.BitAnd, ast.Sub, ast.BitXor)
SET_MUTATORS = MUTATING_METHODS | {'__ior__', '__iand__', '__isub__', '__ixor__'}
FRESH_SET = ['set()', 'set([])', 'set(())']


def check(ctx):
    idx = ctx.index
    st = {}
    d1_record(ctx, idx, st)
    d2_reset(ctx, idx, st)
    d3_fresh(ctx, idx, st)
    d4_cache(ctx, idx, st)
    d4_memos(ctx, idx, st)
    d5_consumers(ctx, idx, st)
    d6_determinism(ctx, idx, st)
    d7_singleton(ctx, idx, st)


def gloc(g, term):
    return '%s:%d' % (g.module.relpath, term.lineno or g.fi.node.lineno)


# ----------------------------------------------------------------------------- D1
def record_of(fi):
    """(field, token expression) for an action `def a(self, tokens): self.<field>.add(<expr>)`."""
    if len(fi.params) != 2:
        raise AnalysisError('%s: a recording action takes (self, tokens)' % fi.qualname)
    me, tok = fi.params
    adds = []
    for n in walk_own(fi.node):
        if isinstance(n, ast.Call) and isinstance(n.func, ast.Attribute) and n.func.attr in SET_MUTATORS:
            recv = n.func.value
            if isinstance(recv, ast.Attribute) and isinstance(recv.value, ast.Name) and recv.value.id == me:
                adds.append((recv.attr, n))
    if len(adds) != 1:
        raise AnalysisError('%s: expected exactly one mutation of a parser field, found %d' % (fi.qualname, len(adds)))
    field, call = adds[0]
    if call.func.attr != 'add' or len(call.args) != 1:
        raise AnalysisError('%s: `%s` is not a plain .add(token)' % (fi.qualname, short(call)))
    for s in fi.node.body:
        if isinstance(s, ast.Return) and s.value is not None and not (isinstance(s.value, ast.Constant) and s.value.value is None):
            raise AnalysisError('%s returns a value (it would replace the tokens)' % fi.qualname)
    expr = lib.inline_locals(call.args[0], fi.node)
    return field, expr, tok, call


def handoff(idx):
    """field -> (MathExpression attribute, copied?) through raw_parse's constructor call and MathExpression.__init__."""
    rp = idx.func(MP + '.raw_parse')
    init = idx.func(ME + '.__init__')
    calls = [c for c in walk_own(rp.node) if isinstance(c, ast.Call) and nf.callee_name(c) == 'MathExpression']
    if len(calls) != 1:
        raise AnalysisError('raw_parse: expected one MathExpression(...) construction, found %d' % len(calls))
    ctor = calls[0]
    if any(isinstance(a, ast.Starred) for a in ctor.args):
        # MathExpression(expression, tree, *used): expand a starred tuple whose elements are known
        flat = []
        for a in ctor.args:
            if isinstance(a, ast.Starred):
                v = _resolve_local(lib.inline_locals(a.value, rp.node), rp.node)
                if not isinstance(v, (ast.Tuple, ast.List)):
                    v = _expand_over_table(idx, rp, v) or v
                if not isinstance(v, (ast.Tuple, ast.List)):
                    raise AnalysisError('raw_parse: starred argument `%s` of MathExpression(...) is not a known tuple' % short(a))
                flat.extend(v.elts)
            else:
                flat.append(a)
        ctor = ast.Call(func=ctor.func, args=flat, keywords=ctor.keywords)
        ast.copy_location(ctor, calls[0])
    if any(k.arg is None for k in ctor.keywords):
        raise AnalysisError('raw_parse: MathExpression(...) is called with **kwargs')
    mapping = map_args(init, ctor)
    me = rp.params[0]
    out = {}
    copied = {}
    p2a = {}
    unresolved = []
    handoff.unresolved = unresolved
    for n in walk_own(init.node):
        if isinstance(n, ast.Assign) and len(n.targets) == 1 and isinstance(n.targets[0], ast.Attribute) \
                and isinstance(n.targets[0].value, ast.Name) and n.targets[0].value.id == init.params[0]:
            src, cp = _alias_source(n.value)
            if isinstance(src, ast.Name) and src.id in init.params:
                p2a.setdefault(src.id, []).append((n.targets[0].attr, cp, n))
    for pname, arg in mapping.items():
        if arg is None:
            continue
        src, cp = _alias_source(_resolve_local(lib.inline_locals(arg, rp.node), rp.node))
        if isinstance(src, ast.Name) and src.id not in rp.params:
            unresolved.append(pname)
        if isinstance(src, ast.Attribute) and isinstance(src.value, ast.Name) and src.value.id == me:
            for attr, cp2, node in p2a.get(pname, []):
                out.setdefault(src.attr, []).append((attr, cp or cp2, calls[0], node))
    return out, rp, init, calls[0]


def _resolve_local(e, fn, depth=0):
    """Follow a local name to its single definition, also through tuple unpacking of a tuple display (possibly held in
    another local): `collected = (a, b, c); x, y, z = collected` gives x -> a."""
    if depth > 6 or not isinstance(e, ast.Name):
        return e
    defs = []
    for n in walk_own(fn):
        if isinstance(n, ast.Assign):
            for t in n.targets:
                if isinstance(t, ast.Name) and t.id == e.id:
                    defs.append(n.value)
                elif isinstance(t, (ast.Tuple, ast.List)):
                    for i, x in enumerate(t.elts):
                        if isinstance(x, ast.Name) and x.id == e.id:
                            src = _resolve_local(n.value, fn, depth + 1) if isinstance(n.value, ast.Name) else n.value
                            if isinstance(src, (ast.Tuple, ast.List)) and len(src.elts) == len(t.elts):
                                defs.append(src.elts[i])
                            else:
                                defs.append(None)
        elif isinstance(n, (ast.For, ast.AugAssign, ast.With)):
            tgt = n.target if not isinstance(n, ast.With) else None
            if tgt is not None and any(isinstance(x, ast.Name) and x.id == e.id for x in ast.walk(tgt)):
                defs.append(None)
    if len(defs) != 1 or defs[0] is None:
        return e
    return _resolve_local(defs[0], fn, depth + 1) if isinstance(defs[0], ast.Name) else defs[0]


def _expand_over_table(idx, fi, e):
    """tuple(f(x) for x in <literal table>) / [f(x) for x in <literal table>] as an explicit tuple display (the table may be
    a class-level attribute); getattr(obj, 'name') is folded to obj.name.  None if not of that shape."""
    if isinstance(e, ast.Call) and isinstance(e.func, ast.Name) and e.func.id in ('tuple', 'list') and len(e.args) == 1:
        e = e.args[0]
    if not isinstance(e, (ast.GeneratorExp, ast.ListComp)) or len(e.generators) != 1:
        return None
    gen = e.generators[0]
    if gen.ifs or not isinstance(gen.target, ast.Name):
        return None
    table = C03._literal_table(idx, fi, gen.iter, lib.local_env(fi.node))
    if table is None:
        return None
    fold = C03._Fold()
    elts = [fold.visit(nf.subst(e.elt, {gen.target.id: row})) for row in table.elts]
    out = ast.Tuple(elts=elts, ctx=ast.Load())
    ast.copy_location(out, e)
    ast.fix_missing_locations(out)
    return out


def _alias_source(e):
    """(underlying expression, copied?) for x / set(x) / x.copy() / frozenset(x) / set(x) | ..."""
    if isinstance(e, ast.Call):
        if isinstance(e.func, ast.Name) and e.func.id in ('set', 'frozenset', 'list', 'tuple', 'sorted') and len(e.args) == 1:
            return _alias_source(e.args[0])[0], True
        if isinstance(e.func, ast.Attribute) and e.func.attr in ('copy', 'union') and not e.args:
            return _alias_source(e.func.value)[0], True
        if nf.callee_name(e) in ('copy', 'deepcopy') and len(e.args) == 1:
            return _alias_source(e.args[0])[0], True
    return e, False


def recording_elements(g, idx):
    """kind -> grammar term that should carry the recording action of that kind."""
    atoms = None
    for t in g.nodes():
        if t.kind == 'first':
            kinds = [C03.classify_atom(g, a) for a in t.kids]
            if 'variable' in kinds and 'function' in kinds:
                if atoms is not None:
                    raise AnalysisError('two ordered choices look like the atom')
                atoms = (t, dict((k, a) for k, a in zip(kinds, t.kids) if k))
    if atoms is None:
        raise AnalysisError('atom (ordered choice with a variable and a function alternative) not found in the grammar')
    atom, alts = atoms
    number = alts.get('number')
    if number is None:
        raise AnalysisError('number alternative not found')
    shapes = g.shapes(number, reps=1)
    sufs = [s[1][1] for s in shapes if len(s) == 2 and s[1][0] == 'text']
    if len(sufs) != 1:
        raise AnalysisError('suffix element of number not identified')
    return atom, alts, {'variable': alts['variable'], 'function': alts['function'], 'suffix': sufs[0]}


def d1_record(ctx, idx, st):
    r = ctx.rule('D1.RECORD', 'each kind of name is recorded by an action on its own grammar element, into the set reported '
                              'under that kind', floor=9)
    with r:
        g = G.extract(idx)
        st['g'] = g
        atom, alts, elems = recording_elements(g, idx)
        st['atom'], st['alts'], st['elems'] = atom, alts, elems
        ctx.extra['grammar'] = {'terms': len(g.nodes()), 'FIRST(atom)': G.show_chars(g.first(atom)),
                                'FOLLOW(variable)': G.show_chars(g.follow(elems['variable'])),
                                'recording_elements': {k: t.describe(1) for k, t in elems.items()}}
        if not any(a.kind == 'method' for t_, a in g.action_sites()):
            # no recording parse action at all: the usage may be read off the finished tree by a visitor instead
            vis = find_visitor(idx)
            if vis is None:
                r.undecided('recording mechanism', 'the grammar has no recording parse action and no tree visitor feeding the '
                            'MathExpression was recognised: the mechanism that collects the used names was not found', gloc(g, atom))
                return
            st['mode'] = 'visitor'
            d1_visitor(r, idx, g, elems, vis)
            r.floor = min(r.floor, r.n)
            _metadata_names(r, idx)
            return
        hand, rp, init, ctor = handoff(idx)
        st['handoff'] = hand
        fields = {}
        expected_sites = {id(t): k for k, t in elems.items()}
        # every recording action anywhere in the grammar
        for term, act in g.action_sites():
            if act.kind == 'opaque':
                r.undecided('parse action on %s' % (term.label or term.describe(1)), 'action `%s` not understood' % act.value, gloc(g, term))
                continue
            if act.kind != 'method':
                continue
            where = '%s:%d' % (g.module.relpath, getattr(act.node, 'lineno', 0))
            field, expr, tok, call = record_of(act.extra)
            kind = expected_sites.get(id(term))
            if kind is None:
                r.violation('action %s on %s' % (act.value, term.label or term.describe(1)),
                            'the recording action %s is attached to `%s`, which is none of the three recording elements '
                            '(variable group, function group, suffix word): it fires for text that is not a name of its kind '
                            '(or also inside attempts the parser abandons)' % (act.value, term.describe(2)), where)
                continue
            fields.setdefault(kind, []).append((act, field, expr, tok, call))
        for kind, term in sorted(elems.items()):
            where = gloc(g, term)
            acts = fields.get(kind, [])
            construct = '%s element' % kind
            if not acts:
                r.violation(construct, 'no recording action is attached to the %s element `%s`: %s occurring in a formula are '
                            'never reported' % (kind, term.describe(2), {'variable': 'variables', 'function': 'functions',
                                                                          'suffix': 'suffixes'}[kind]), where)
                continue
            if len(acts) > 1:
                r.undecided(construct, '%d recording actions on one element' % len(acts), where)
            act, field, expr, tok, call = acts[0]
            mloc = lib.loc(act.extra, call)
            # token expression
            want = '%s[0]' % tok if term.kind in ('word', 'combine') else '%s[0][0]' % tok
            if term.kind == 'group':
                sh = g.shapes(term, reps=1)
                if not sh or not sh[0] or sh[0][0][0] != 'text':
                    r.undecided(construct, 'first token of the group is not its name', where)
            res = nf.classify(want, expr)
            if res == nf.MATCH:
                r.ok('%s: recorded token' % kind, want.replace(tok, 'tokens'), mloc)
            elif nf.match('%s[_I][_J]' % tok, expr) is not None or nf.match('%s[_I]' % tok, expr) is not None \
                    or (isinstance(expr, ast.Name) and expr.id == tok):
                r.violation('%s: recorded token' % kind, 'the action records `%s`; for a %s the name is `%s` (%s)' % (
                    unparse(expr), 'Group element' if term.kind == 'group' else 'Word element', want,
                    'tokens[0] is the whole group, tokens[0][0] its first child, the name' if term.kind == 'group'
                    else 'tokens[0] is the matched word; tokens[0][0] would be its first character'), mloc,
                    expected=want, found=unparse(expr))
            else:
                r.undecided('%s: recorded token' % kind, 'token expression `%s` not recognised' % unparse(expr), mloc)
            # field -> attribute
            targets = hand.get(field, [])
            if not targets and getattr(handoff, 'unresolved', None):
                r.undecided('%s: hand-off' % kind, 'the arguments %s of MathExpression(...) in raw_parse could not be traced to '
                            'parser fields' % ', '.join(handoff.unresolved), mloc)
                continue
            if not targets:
                r.violation('%s: hand-off' % kind, 'the action records into self.%s, which raw_parse does not hand to the '
                            'MathExpression: the recorded names are lost' % field, mloc)
                continue
            attrs = sorted({a for a, cp, c, n in targets})
            r.check(attrs == [KINDS[kind]], '%s: hand-off' % kind, 'self.%s -> MathExpression.%s' % (field, KINDS[kind]),
                    'names of kind %s are recorded into self.%s, which ends up as MathExpression.%s instead of .%s: %s and '
                    '%s are confused in the reported usage' % (kind, field, '/'.join(attrs), KINDS[kind], kind + 's',
                                                               '/'.join(a.split('_')[0] for a in attrs)),
                    mloc, expected=KINDS[kind], found='/'.join(attrs))
        st['fields'] = {k: v[0][1] for k, v in fields.items() if v}
        _metadata_names(r, idx)


def _metadata_names(r, idx):
    # eval reports each attribute under its own name
    ev = idx.func(ME + '.eval')
    md = lib.calls_named(ev.node, 'EvalMetaData')
    if len(md) != 1:
        raise AnalysisError('MathExpression.eval: expected one EvalMetaData construction')
    nt = idx.module(MOD).assigns.get('EvalMetaData', [])
    names = None
    if len(nt) == 1 and isinstance(nt[0], ast.Call) and nf.callee_name(nt[0]) == 'namedtuple' and len(nt[0].args) == 2:
        names = nf.const_value(nt[0].args[1])
    if not isinstance(names, list):
        raise AnalysisError('EvalMetaData is not a namedtuple with a literal field list')
    me = ev.params[0]
    for k in sorted(SETS):
        v = lib.get_kw(md[0], k, names.index(k) if k in names else None)
        good = v is not None and isinstance(v, ast.Attribute) and isinstance(v.value, ast.Name) and v.value.id == me and v.attr == k
        r.check(good, 'MathExpression.eval: EvalMetaData.%s' % k, 'self.%s' % k,
                'evaluator()[1].%s is built from `%s` instead of self.%s' % (k, short(v) if v is not None else 'nothing', k),
                lib.loc(ev, md[0]), expected='self.%s' % k, found=short(v) if v is not None else None)


# ------------------------------------------------------------------ D1, visitor form
def find_visitor(idx):
    """raw_parse builds `u = C(tree)` and hands u.<attr> to MathExpression for the three usage parameters, C being a class
    of the package with a recursive method visiting parse-tree nodes.  Returns a dict or None."""
    rp = idx.func(MP + '.raw_parse')
    init = idx.func(ME + '.__init__')
    calls = [c for c in walk_own(rp.node) if isinstance(c, ast.Call) and nf.callee_name(c) == 'MathExpression']
    if len(calls) != 1:
        return None
    p2a = {}
    for n in walk_own(init.node):
        if isinstance(n, ast.Assign) and len(n.targets) == 1 and isinstance(n.targets[0], ast.Attribute) \
                and isinstance(n.value, ast.Name) and n.value.id in init.params:
            p2a[n.value.id] = n.targets[0].attr
    attr_map = {}          # visitor attribute -> MathExpression attribute
    holder = None
    for pname, arg in map_args(init, calls[0]).items():
        if arg is None or p2a.get(pname) not in SETS:
            continue
        a = _resolve_local(lib.inline_locals(arg, rp.node), rp.node)
        if isinstance(a, ast.Attribute):
            base = _resolve_local(a.value, rp.node) if isinstance(a.value, ast.Name) else a.value
            if isinstance(base, ast.Call):
                if holder is not None and unparse(holder) != unparse(base):
                    return None
                holder = base
                attr_map[a.attr] = p2a[pname]
    if holder is None or len(attr_map) != 3:
        return None
    originals = [c for c in walk_own(rp.node) if isinstance(c, ast.Call) and nf.equal(nf.canon(lib.inline_locals(c, rp.node)), nf.canon(holder))]
    if len(originals) != 1:
        return None
    targets, how = idx.resolve_call(rp, originals[0])
    cis = [t[1] for t in targets if isinstance(t, tuple) and t[0] == 'class']
    if len(cis) != 1:
        return None
    ci = cis[0]
    cinit = idx.lookup(ci, '__init__')
    if cinit is None:
        return None
    recursive = [m for m in ci.methods.values() if any(
        isinstance(x, ast.Call) and isinstance(x.func, ast.Attribute) and x.func.attr == m.name
        and isinstance(x.func.value, ast.Name) and m.params and x.func.value.id == m.params[0] for x in ast.walk(m.node))]
    if len(recursive) != 1 or len(recursive[0].params) != 2:
        return None
    visit = recursive[0]
    # the constructor starts the walk (directly, or through copies of the visitor's body the normaliser inlined there)
    if not any(isinstance(x, ast.Call) and isinstance(x.func, ast.Attribute) and x.func.attr == visit.name for x in ast.walk(cinit.node)):
        return None
    return {'cls': ci, 'visit': visit, 'attr_map': attr_map, 'rp': rp}


def _visitor_branch(idx, vis, kind):
    """What the visitor does for a node whose name is `kind`: (records [(attr, expr)], descends 'all' | {child indices} | None)
    or None when the guards cannot be decided."""
    v = vis['visit']
    me, node = v.params
    ci = vis['cls']

    def strset(e):
        if isinstance(e, ast.Attribute) and isinstance(e.value, ast.Name) and e.value.id in (me, ci.name):
            k_, val = idx.lookup_attr(ci, e.attr)
            e = val
        elif isinstance(e, ast.Name):
            vals = ci.module.assigns.get(e.id, [])
            e = vals[0] if len(vals) == 1 else None
        if isinstance(e, (ast.Tuple, ast.List, ast.Set)) and all(isinstance(x, ast.Constant) and isinstance(x.value, str) for x in e.elts):
            return {x.value for x in e.elts}
        if isinstance(e, ast.Call) and nf.callee_name(e) in ('frozenset', 'set', 'tuple') and len(e.args) == 1:
            return strset(e.args[0])
        return None

    def is_name(e):
        return any(nf.match(p % node, e) is not None for p in ('%s.getName()', '%s.get_name()'))

    def ev(g_):
        if isinstance(g_, ast.BoolOp):
            vals = [ev(x) for x in g_.values]
            if isinstance(g_.op, ast.And):
                return False if False in vals else (None if None in vals else True)
            return True if True in vals else (None if None in vals else False)
        if isinstance(g_, ast.UnaryOp) and isinstance(g_.op, ast.Not):
            x = ev(g_.operand)
            return None if x is None else not x
        if isinstance(g_, ast.Compare) and len(g_.ops) == 1:
            l, rgt, op = g_.left, g_.comparators[0], g_.ops[0]
            if isinstance(op, (ast.Eq, ast.NotEq)):
                if is_name(rgt) and isinstance(l, ast.Constant):
                    l, rgt = rgt, l
                if is_name(l) and isinstance(rgt, ast.Constant):
                    return (rgt.value == kind) == isinstance(op, ast.Eq)
            if isinstance(op, (ast.In, ast.NotIn)) and is_name(l):
                ss = strset(rgt)
                if ss is not None:
                    return (kind in ss) == isinstance(op, ast.In)
        return None
    for p in nf.decision_paths(v.node.body):
        vals = [ev(g_) for g_ in p.guards]
        if any(x is False for x in vals):
            continue
        if any(x is None for x in vals):
            return None
        records, descends = [], set()
        for eff in p.effects:
            for n in ast.walk(eff):
                if isinstance(n, ast.Call) and isinstance(n.func, ast.Attribute):
                    f = n.func
                    if f.attr in ('add', 'update') and isinstance(f.value, ast.Attribute) and isinstance(f.value.value, ast.Name) \
                            and f.value.value.id == me and n.args:
                        records.append((f.value.attr, f.attr, n.args[0]))
                    elif f.attr == v.name and isinstance(f.value, ast.Name) and f.value.id == me and n.args:
                        a = n.args[0]
                        if isinstance(a, ast.Subscript) and isinstance(a.value, ast.Name) and a.value.id == node \
                                and isinstance(a.slice, ast.Constant) and isinstance(a.slice.value, int):
                            descends.add(a.slice.value)
                        else:
                            loop = eff if isinstance(eff, ast.For) else None
                            if loop is not None and isinstance(loop.iter, ast.Name) and loop.iter.id == node and isinstance(a, ast.Name) \
                                    and any(isinstance(t, ast.Name) and t.id == a.id for t in ast.walk(loop.target)):
                                descends = 'all'
                            else:
                                return None
                    if descends == 'all':
                        break
            if descends == 'all':
                continue
        return records, (descends if descends else None)
    return [], None      # no branch is taken for this kind: the node is ignored


def d1_visitor(r, idx, g, elems, vis):
    """The usage sets are collected by a tree visitor after the parse: every kind of node the grammar produces must be
    handled -- the three recording kinds record their own token into the right set, every other kind is descended into."""
    v, ci, attr_map = vis['visit'], vis['cls'], vis['attr_map']
    where = v.loc
    if getattr(idx, 'unreviewed', None):
        # the visitor method is analysed right here (its decision paths per node kind): it is reviewed
        idx.unreviewed = [q for q in idx.unreviewed if q != v.qualname]
    produced = {}
    for name, term, how in g.groups():
        if name is not None:
            produced.setdefault(name, term)
    leaf = {elems['variable'].name: ('variable', 'variables_used'), elems['function'].name: ('function', 'functions_used')}
    number_name = None
    for name, term in produced.items():
        if term.kind == 'group' and C03.classify_atom(g, term) == 'number':
            number_name = name
    for kind in sorted(produced):
        res = _visitor_branch(idx, vis, kind)
        construct = "%s.%s: '%s' nodes" % (ci.name, v.name, kind)
        if res is None:
            r.undecided(construct, 'the branch taken for this kind of node could not be determined', where)
            continue
        records, descends = res
        if kind in leaf or kind == number_name:
            role, want = leaf.get(kind, ('number', 'suffixes_used'))
            got = sorted({attr_map.get(a, a) for a, m, e in records})
            if not records:
                r.violation(construct, 'the visitor records nothing for %s nodes: %ss occurring in a formula are never reported'
                            % (kind, {'number': 'suffixe'}.get(role, role)), where)
                continue
            if got != [want]:
                r.violation(construct, 'the %s of a %s node is recorded into %s instead of %s' % (
                    'suffix' if role == 'number' else 'name', kind, '/'.join(got), want), where, expected=want, found='/'.join(got))
                continue
            a_, m_, e_ = records[0]
            good = (role != 'number' and m_ == 'add' and nf.match('%s[0]' % v.params[1], e_) is not None) or \
                   (role == 'number' and ((m_ == 'update' and nf.match('%s[1:]' % v.params[1], e_) is not None)
                                          or (m_ == 'add' and nf.match('%s[1]' % v.params[1], e_) is not None)))
            if not good:
                r.undecided(construct, 'recorded expression `%s` not recognised' % short(e_), where)
                continue
            if role == 'function' and descends not in ('all',) and not (isinstance(descends, set) and 1 in descends):
                r.violation(construct, 'the visitor records the function name but does not descend into its arguments: names used '
                            'inside f(...) are not reported', where)
                continue
            r.ok(construct, 'records %s into %s%s' % (short(e_), want, ' and visits the arguments' if role == 'function' else ''), where)
        else:
            if descends == 'all':
                r.ok(construct, 'descends into every child node', where)
            elif descends is None and not records:
                r.violation(construct, "the tree visitor that collects the used names has no branch that descends into '%s' nodes, "
                            "which the grammar produces: every variable, function and suffix inside such a node (e.g. inside "
                            "`a %s b`) is missing from the reported usage" % (kind, {'parallel': '||', 'product': '*', 'sum': '+',
                                                                                   'power': '^'}.get(kind, '...')), where,
                            expected="a branch for '%s' that visits its children" % kind, found='node ignored')
            else:
                r.undecided(construct, 'partial descent %s not understood' % (sorted(descends) if descends else ''), where)


# ----------------------------------------------------------------------------- D2
def d2_reset(ctx, idx, st):
    r = ctx.rule('D2.RESET', 'reset_storage post-dominates every exit of raw_parse, exceptional ones included', floor=2)
    with r:
        if st.get('mode') == 'visitor':
            r.ok('raw_parse: scratch state', 'none: no parse action records anything, the usage is read off the finished tree', '', nontrivial=False)
            r.floor = min(r.floor, r.n)
            return
        rp = idx.func(MP + '.raw_parse')
        cfg = cfg_of(rp.node)
        parse_calls = lib.calls_named(rp.node, ('parseString', 'parse_string'))
        if len(parse_calls) != 1:
            raise AnalysisError('raw_parse: expected one parseString call')
        resets = [c for c in lib.calls_named(rp.node, 'reset_storage')
                  if isinstance(c.func, ast.Attribute) and isinstance(c.func.value, ast.Name) and c.func.value.id == rp.params[0]]
        starts = lib.cfg_nodes_for(cfg, parse_calls[0])
        # a `with` over a manager whose exit resets the storage: __exit__ runs on every exit of the block
        manager_nodes = []
        for w in lib.stmts_in(rp.node, ast.With):
            for item in w.items:
                why = _manager_resets(idx, rp, item.context_expr)
                if isinstance(why, tuple):
                    kind, text, ex = why
                    if kind == 'partial':
                        r.violation('raw_parse: `with` manager', '%s: on the other exits of the with-block the names recorded by the parse stay '
                                    'in the scratch sets and are reported for the next formula' % text, ex.loc)
                    else:
                        r.violation('raw_parse: `with` manager', '%s: raw_parse then falls off its end and returns None for a malformed '
                                    'formula instead of raising' % text, ex.loc)
                elif why:
                    manager_nodes.extend(n for n in cfg.nodes_of(w) if n.kind == 'with_exit')
                    r.note('raw_parse: `with %s`: %s' % (short(item.context_expr), why))
        if not resets and not manager_nodes:
            # a reset moved into another method of the parser counts as the reset
            for c in [n for n in walk_own(rp.node) if isinstance(n, ast.Call) and isinstance(n.func, ast.Attribute)
                      and isinstance(n.func.value, ast.Name) and n.func.value.id == rp.params[0]]:
                tgt = idx.lookup(rp.cls, c.func.attr) if rp.cls is not None else None
                if tgt is not None and lib.calls_named(tgt.node, 'reset_storage'):
                    resets.append(c)
        if not resets and not manager_nodes:
            other = [n for n in walk_own(rp.node) if isinstance(n, ast.Call) and nf.callee_name(n) not in (
                'parseString', 'parse_string', 'validate', 'MathExpression')]
            if other or idx.unreviewed:
                r.undecided('raw_parse: reset_storage', 'no reset_storage call found, but raw_parse calls `%s`' % (
                    short(other[0]) if other else ', '.join(idx.unreviewed)), rp.loc)
                return
            r.violation('raw_parse: reset_storage', 'raw_parse no longer calls reset_storage: the names recorded by one parse '
                        '(successful or not) stay in the scratch sets and are reported for the next formula', rp.loc)
            return
        through = [n for c in resets for n in lib.cfg_nodes_for(cfg, c)] + manager_nodes
        for exits, what in (('raise', 'an exceptional'), ('return', 'a normal')):
            ok = cfg.must_pass(starts, through, exits=exits, after=True)
            if not ok and exits == 'raise':
                verdict = _callers_reset_on_failure(idx, rp)
                if verdict is True:
                    r.ok('raw_parse: reset on exceptional exit', 'done by every caller for every exception that leaves raw_parse', rp.loc)
                    continue
                if verdict:
                    fi_c, text = verdict
                    r.violation('raw_parse: reset on exceptional exit', 'raw_parse itself resets the scratch sets only on its normal exit, and its '
                                'caller %s %s: an exception of any other kind raised while parsing (RecursionError on deeply nested '
                                'input, a fatal pyparsing error, an error in a parse action) leaves the names recorded so far in the '
                                'shared parser, and they are reported for the next formula that is parsed' % (fi_c.name, text),
                                lib.loc(fi_c), expected='reset in a finally / for every exception', found=text)
                    continue
            detail = ''
            if not ok:
                path = cfg.witness_path(starts, through, cfg.exits(exits), after=True)
                detail = ' (e.g. via %s)' % ' -> '.join(repr(n) for n in (path or [])[:4])
            r.check(ok, 'raw_parse: reset on %s exit' % what.split()[-1], 'every path from parseString to %s exit passes reset_storage' % what,
                    '%s exit of raw_parse is reachable from the parseString call without passing reset_storage%s: names recorded '
                    'by a %s parse are reported for the next formula parsed' % (what, detail, 'failed' if exits == 'raise' else 'previous'),
                    lib.loc(rp, resets[0]) if resets else rp.loc)
        for t in lib.stmts_in(rp.node, ast.Try):
            for s in t.finalbody:
                if any(isinstance(n, (ast.Return, ast.Break, ast.Continue)) for n in ast.walk(s)):
                    r.violation('raw_parse: finally', 'a return inside finally swallows parse errors', lib.loc(rp, s))


def _callers_reset_on_failure(idx, rp):
    """True if every caller of raw_parse passes reset_storage on every exceptional path out of the call; (caller, text) if a
    caller resets only in handlers for some exception classes; None if nothing of the kind was found."""
    callers = []
    for f in idx.package_funcs():
        for c in walk_own(f.node):
            if isinstance(c, ast.Call) and nf.callee_name(c) == 'raw_parse' and f.qualname != rp.qualname:
                targets, how = idx.resolve_call(f, c)
                if any(not isinstance(t, tuple) and t.qualname == rp.qualname for t in targets):
                    callers.append((f, c))
    if not callers:
        return None
    partial = None
    for f, c in callers:
        cfg = cfg_of(f.node)
        resets = [n for x in lib.calls_named(f.node, 'reset_storage') for n in lib.cfg_nodes_for(cfg, x)]
        if not resets:
            return None
        exc = [t for s_ in lib.cfg_nodes_for(cfg, c) for t, lab in s_.succs if lab == 'exc']
        if not exc:
            return None
        if cfg.must_pass(exc, resets, exits='raise', after=False) and cfg.must_pass(exc, resets, exits='return', after=False):
            continue
        tr = lib.enclosing_try(c)
        classes = []
        if tr is not None:
            for h in tr.handlers:
                if any(isinstance(n, ast.Call) and nf.callee_name(n) == 'reset_storage' for s_ in h.body for n in ast.walk(s_)):
                    classes.extend(lib.handler_class_names(h))
        if classes and not (set(classes) & {'Exception', 'BaseException'}):
            partial = (f, 'resets them only in its handler for %s' % '/'.join(classes))
        else:
            return None
    return partial or True


def _manager_resets(idx, rp, ce):
    """Does leaving `with <ce>:` always call reset_storage (and never swallow the exception)?  Recognised managers: a class
    whose __exit__ passes a `.reset_storage()` call on every path and returns nothing truthy; a @contextmanager generator
    whose yield sits in a try with reset_storage in the finally.  Returns a description or None."""
    if not isinstance(ce, ast.Call):
        return None
    targets, how = idx.resolve_call(rp, ce)
    for t in targets:
        if isinstance(t, tuple) and t[0] == 'class':
            ex = idx.lookup(t[1], '__exit__')
            if ex is None:
                continue
            calls = lib.calls_named(ex.node, 'reset_storage')
            if not calls:
                continue
            ecfg = cfg_of(ex.node)
            through = [n for c in calls for n in lib.cfg_nodes_for(ecfg, c)]
            if not ecfg.must_pass([ecfg.entry], through, exits='all', after=True):
                return ('partial', '%s.__exit__ calls reset_storage only on some of its paths' % t[1].name, ex)
            swallow = [x for x in lib.returns_of(ex.node) if x.value is not None and not (
                isinstance(x.value, ast.Constant) and not x.value.value)]
            if swallow:
                return ('swallow', '%s.__exit__ may return a true value (`%s`), which suppresses the exception of a failed '
                        'parse' % (t[1].name, short(swallow[0])), ex)
            # the manager must be given this parser
            if not any(isinstance(a, ast.Name) and a.id == rp.params[0] for a in list(ce.args) + [k.value for k in ce.keywords]):
                continue
            return '%s.__exit__ always calls reset_storage and does not swallow exceptions' % t[1].name
        if not isinstance(t, tuple) and any('contextmanager' in d for d in t.decorators):
            for tr in lib.stmts_in(t.node, ast.Try):
                has_yield = any(isinstance(n, ast.Yield) for s_ in tr.body for n in ast.walk(s_))
                resets = any(isinstance(n, ast.Call) and nf.callee_name(n) == 'reset_storage' for s_ in tr.finalbody for n in ast.walk(s_))
                if has_yield and resets and not tr.handlers:
                    return 'generator manager %s resets in the finally around its yield' % t.name
    return None


# ----------------------------------------------------------------------------- D3
def d3_fresh(ctx, idx, st):
    r = ctx.rule('D3.FRESH', 'a set handed to a MathExpression is never mutated afterwards: reset_storage rebinds fresh sets', floor=9)
    with r:
        if st.get('mode') == 'visitor':
            vis = find_visitor(idx)
            cinit = idx.lookup(vis['cls'], '__init__')
            for a in sorted(vis['attr_map']):
                binds = _field_binds(cinit.node, a)
                fresh = bool(binds) and any(nf.match(p, binds[-1][1]) is not None for p in FRESH_SET)
                if fresh:
                    r.ok('%s.__init__: self.%s' % (vis['cls'].name, a), 'a fresh set per parse', lib.loc(cinit, binds[-1][0]))
                else:
                    r.undecided('%s.__init__: self.%s' % (vis['cls'].name, a), 'not recognised as a fresh set per visitor object', cinit.loc)
            r.floor = min(r.floor, r.n)
            return
        hand = st.get('handoff')
        if hand is None:
            hand = handoff(idx)[0]
        fields = st.get('fields') or {}
        wanted = sorted(set(fields.values()) | set(hand))
        if len(wanted) < 3:
            raise AnalysisError('fewer than three scratch sets identified: %s' % wanted)
        rs = idx.func(MP + '.reset_storage')
        me = rs.params[0]
        cls = idx.cls(MP)
        for f in wanted:
            aliased = any(not cp for a, cp, c, n in hand.get(f, []))
            binds = _field_binds(rs.node, f, idx, rs)
            muts = [n for n in walk_own(rs.node) if isinstance(n, ast.Call) and isinstance(n.func, ast.Attribute)
                    and n.func.attr in SET_MUTATORS and isinstance(n.func.value, ast.Attribute) and n.func.value.attr == f
                    and isinstance(n.func.value.value, ast.Name) and n.func.value.value.id == me]
            construct = 'reset_storage: self.%s' % f
            if muts and aliased:
                r.violation(construct, 'reset_storage empties the set in place (`%s`) although the same object was handed to the '
                            'MathExpression just built (and cached): every parse result loses its %s, and later parses write '
                            'into the sets of earlier results' % (short(muts[0]), f), lib.loc(rs, muts[0]),
                            expected='self.%s = set()' % f, found=short(muts[0]))
                continue
            if not binds and not muts:
                if _only_field_stores(rs) and not idx.unreviewed:
                    r.violation(construct, 'reset_storage does not reset self.%s: names recorded for one formula are reported for '
                                'the following ones as well' % f, rs.loc, expected='self.%s = set()' % f)
                else:
                    r.undecided(construct, 'no reset of self.%s found, but reset_storage contains statements that were not '
                                'understood' % f, rs.loc)
                continue
            if binds:
                v = binds[-1][1]
                fresh = any(nf.match(p, v) is not None for p in FRESH_SET) or (isinstance(v, ast.Set))
                if fresh:
                    r.ok(construct, 'rebound to a fresh set', lib.loc(rs, binds[-1][0]))
                elif isinstance(v, ast.Attribute) or isinstance(v, ast.Name):
                    r.violation(construct, 'self.%s is rebound to `%s`, an existing object, not to a fresh set' % (f, short(v)),
                                lib.loc(rs, binds[-1][0]), expected='set()', found=short(v))
                else:
                    r.undecided(construct, 'value `%s` not recognised as a fresh set' % short(v), lib.loc(rs, binds[-1][0]))
            else:
                r.ok(construct, 'cleared in place; the expression received a copy', lib.loc(rs, muts[0]))
        # nobody else in MathParser mutates the scratch sets
        g = st.get('g') or G.extract(idx)      # AnalysisError -> undecided: without the grammar the actions are unknown
        allowed = {a.extra.qualname for t, a in g.action_sites() if a.kind == 'method'}
        for name, fi in sorted(cls.methods.items()):
            if not fi.params:
                continue
            me = fi.params[0]
            for n in walk_own(fi.node):
                tgt = None
                how = None
                if isinstance(n, ast.Call) and isinstance(n.func, ast.Attribute) and n.func.attr in SET_MUTATORS:
                    tgt, how = n.func.value, '.%s()' % n.func.attr
                elif isinstance(n, ast.AugAssign) and isinstance(n.op, INPLACE_OPS):
                    tgt, how = n.target, 'in-place %s' % type(n.op).__name__
                if tgt is None or not (isinstance(tgt, ast.Attribute) and isinstance(tgt.value, ast.Name) and tgt.value.id == me
                                       and tgt.attr in wanted):
                    continue
                if fi.qualname in allowed and how == '.add()':
                    r.ok('%s: self.%s.add' % (name, tgt.attr), 'recording action', lib.loc(fi, n), nontrivial=False)
                elif name == 'reset_storage':
                    continue
                else:
                    r.violation('MathParser.%s: self.%s' % (name, tgt.attr), '`%s` mutates a scratch set outside the three recording '
                                'actions: the set may already belong to a cached MathExpression' % short(n), lib.loc(fi, n))
        # the constructor starts from empty sets, too
        init = idx.func(MP + '.__init__')
        for f in wanted:
            binds = _field_binds(init.node, f, idx, init)
            construct = 'MathParser.__init__: self.%s' % f
            if not binds:
                via = [c for c in lib.calls_named(init.node, 'reset_storage') if isinstance(c.func, ast.Attribute)
                       and isinstance(c.func.value, ast.Name) and c.func.value.id == init.params[0]]
                if via and _field_binds(rs.node, f, idx, rs):
                    r.ok(construct, 'starts empty (through reset_storage)', lib.loc(init, via[0]))
                else:
                    r.undecided(construct, 'no initialisation of self.%s found in __init__' % f, init.loc)
                continue
            v = binds[-1][1]
            if any(nf.match(p, v) is not None for p in FRESH_SET) or (isinstance(v, ast.Set) and not v.elts):
                r.ok(construct, 'starts empty', lib.loc(init, binds[-1][0]))
            elif isinstance(v, (ast.Set, ast.Call)) and nf.callee_name(v) in ('set', None) and (getattr(v, 'elts', None) or getattr(v, 'args', None)):
                r.violation(construct, 'self.%s starts as `%s`, not as an empty set: those names are reported for the first '
                            'formula parsed' % (f, short(v)), lib.loc(init, binds[-1][0]), expected='set()', found=short(v))
            else:
                r.undecided(construct, 'initial value `%s` not recognised' % short(v), lib.loc(init, binds[-1][0]))


def _only_field_stores(fi):
    """Is every statement of fi a docstring, `pass`, or an assignment / mutator call on fields of self?"""
    me = fi.params[0] if fi.params else None
    for s_ in fi.node.body:
        if isinstance(s_, ast.Pass) or (isinstance(s_, ast.Expr) and isinstance(s_.value, ast.Constant)):
            continue
        if isinstance(s_, ast.Assign) and isinstance(s_.value, (ast.Constant, ast.Call, ast.Tuple, ast.Set, ast.Name)) \
                and not any(isinstance(c, ast.Call) and not (isinstance(c.func, ast.Name) and c.func.id in ('set', 'frozenset'))
                            for c in ast.walk(s_.value)):
            continue
        if isinstance(s_, ast.Expr) and isinstance(s_.value, ast.Call) and isinstance(s_.value.func, ast.Attribute) \
                and isinstance(s_.value.func.value, ast.Attribute) and isinstance(s_.value.func.value.value, ast.Name) \
                and s_.value.func.value.value.id == me:
            continue
        return False
    return True


def _field_binds(fn, field, idx=None, fi=None):
    """[(statement, value)] for `self.<field> = value` (also element-wise in tuple assignments, as setattr(self, '<field>', v),
    and inside loops over a literal table of field names, which are unrolled), in source order."""
    out = []
    extra = []
    if idx is not None and fi is not None:
        for st_ in C03._unrolled_rows(fn, idx, fi):
            extra.extend(ast.walk(st_))
    for n in list(walk_own(fn)) + extra:
        if isinstance(n, ast.Call) and isinstance(n.func, ast.Name) and n.func.id == 'setattr' and len(n.args) == 3 \
                and isinstance(n.args[1], ast.Constant) and n.args[1].value == field:
            out.append((n, n.args[2]))
            continue
        if not isinstance(n, ast.Assign):
            continue
        for t in n.targets:
            if isinstance(t, ast.Attribute) and t.attr == field:
                out.append((n, n.value))
            elif isinstance(t, (ast.Tuple, ast.List)) and isinstance(n.value, (ast.Tuple, ast.List)) and len(t.elts) == len(n.value.elts):
                for x, v in zip(t.elts, n.value.elts):
                    if isinstance(x, ast.Attribute) and x.attr == field:
                        out.append((n, v))
    return out


# ----------------------------------------------------------------------------- D4
def d4_cache(ctx, idx, st):
    r = ctx.rule('D4.CACHE', 'the cache is filled only with the result of a raw_parse that returned normally, under the '
                             'space-stripped key', floor=6)
    with r:
        fi = idx.func(MP + '.parse')
        me = fi.params[0]
        cfg = cfg_of(fi.node)
        call, _parsed_arg = C03.parse_call_site(idx, fi)
        rnodes = lib.cfg_nodes_for(cfg, call)
        stores = [n for n in walk_own(fi.node) if isinstance(n, ast.Assign) and any(
            isinstance(t, ast.Subscript) and nf.match('%s.cache' % me, t.value) is not None for t in n.targets)]
        extra = [n for n in lib.calls_named(fi.node, ('setdefault', 'update', '__setitem__'))
                 if nf.match('%s.cache' % me, n.func.value) is not None]
        if extra:
            r.undecided('MathParser.parse: cache store', 'cache filled through `%s`' % short(extra[0]), lib.loc(fi, extra[0]))
        if not stores and not extra:
            # nothing is ever cached: every call parses afresh, so no outcome can depend on an earlier call through the cache
            r.ok('MathParser.parse: cache store order', 'no store into the cache at all: nothing is cached', fi.loc)
            r.ok('MathParser.parse: cached value', 'no store into the cache at all', fi.loc)
        st_call = lib.enclosing_stmt(call)
        for s in stores:
            where = lib.loc(fi, s)
            snodes = cfg.nodes_of(s)
            if s is st_call:
                if s.value is call and len(s.targets) == 1:
                    r.ok('MathParser.parse: cache store order', 'the store is the assignment of the call\'s own result: it executes '
                         'only when raw_parse returned', where)
                    r.ok('MathParser.parse: cached value', 'the MathExpression returned by raw_parse', where)
                else:
                    r.undecided('MathParser.parse: cache store', 'store and parse in one statement: `%s`' % short(s), where)
                continue
            # reachable without the normal completion of the raw_parse statement?
            blocked = set()
            for rn in rnodes:
                for t, lab in rn.succs:
                    if lab != 'exc':
                        blocked.add((rn, t, lab))
            reach = cfg.reach([cfg.entry], blocked_edges=blocked)
            early = any(n in reach for n in snodes)
            r.check(not early, 'MathParser.parse: cache store order', 'reachable only after raw_parse returned normally',
                    'the store `%s` can execute although raw_parse did not return normally (before the parse, or on its '
                    'exceptional exit): a failed or not-yet-parsed string leaves an entry in the process-wide cache, so the '
                    'outcome for that string depends on history' % short(s), where)
            v = s.value
            src = None
            if isinstance(v, ast.Name):
                defs = lib.assigned_value(fi.node, v.id)
                src = defs
            elif isinstance(v, ast.Call):
                src = [v]
            good = bool(src) and all(d is call for d in src)
            r.check(good, 'MathParser.parse: cached value', 'the MathExpression returned by raw_parse',
                    'the cached value `%s` is not (only) the result of the raw_parse call' % short(v), where)
        # the cached object is what the caller gets, on both paths
        rets = lib.returns_of(fi.node)
        unknown = []
        for ret in rets:
            v = ret.value
            ok = False
            if isinstance(v, ast.Name):
                defs = lib.assigned_value(fi.node, v.id)
                ok = bool(defs) and all(d is call or (isinstance(d, ast.Subscript) and nf.match('%s.cache' % me, d.value) is not None)
                                        or (isinstance(d, ast.Call) and nf.callee_name(d) == 'get' and nf.match('%s.cache' % me, d.func.value) is not None)
                                        for d in defs)
            elif isinstance(v, ast.Subscript) and nf.match('%s.cache' % me, v.value) is not None:
                ok = True
            elif isinstance(v, ast.Call) and nf.callee_name(v) == 'get' and nf.match('%s.cache' % me, v.func.value) is not None:
                ok = True
            elif v is call:
                ok = True
            if not ok:
                unknown.append(ret)
        if unknown or not rets:
            r.undecided('MathParser.parse: returns', '`%s` not recognised' % (short(unknown[0]) if unknown else 'no return'),
                        lib.loc(fi, unknown[0]) if unknown else fi.loc)
        else:
            r.ok('MathParser.parse: returns', '%d return(s): the cached / freshly parsed expression itself' % len(rets), lib.loc(fi, rets[0]))
        C03.parse_key_discipline(r, idx)


PARSE_TARGETS = (MP + '.parse', MP + '.raw_parse', MOD + '.parse')
STATE_MUTATORS = {'update', 'setdefault', 'append', 'add', 'insert', 'extend', '__setitem__', 'appendleft', 'move_to_end'}


def _parse_calls(idx, fi):
    out = []
    for c in walk_own(fi.node):
        if isinstance(c, ast.Call) and nf.callee_name(c) in ('parse', 'raw_parse'):
            targets, how = idx.resolve_call(fi, c)
            if any(not isinstance(t, tuple) and t.qualname in PARSE_TARGETS for t in targets):
                out.append(c)
    return out


def _persistent_stores(idx, fi):
    """Stores into state that outlives the call: subscript/attribute stores and mutating calls on module-level names,
    on PARSER, on self (methods), on the function object itself; rebinding of declared globals."""
    fn = fi.node
    from ..index import local_names
    locs = set(local_names(fn))
    globs = {n for g_ in walk_own(fn) if isinstance(g_, ast.Global) for n in g_.names}
    me = fi.params[0] if (fi.cls is not None and not fi.is_static and fi.params) else None

    def persistent_root(e):
        cur = e
        while isinstance(cur, (ast.Subscript, ast.Attribute)):
            cur = cur.value
        if not isinstance(cur, ast.Name):
            return None
        if cur.id == me or cur.id in globs or (cur.id not in locs and cur.id not in fi.all_params):
            return cur.id
        return None
    out = []
    for n in walk_own(fn):
        if isinstance(n, (ast.Assign, ast.AugAssign, ast.AnnAssign)):
            targets = n.targets if isinstance(n, ast.Assign) else [n.target]
            flat = []
            for t in targets:
                flat.extend(t.elts if isinstance(t, (ast.Tuple, ast.List)) else [t])
            for t in flat:
                if isinstance(t, (ast.Subscript, ast.Attribute)):
                    root = persistent_root(t)
                    if root is not None:
                        out.append((n, t, root))
                elif isinstance(t, ast.Name) and t.id in globs:
                    out.append((n, t, t.id))
        elif isinstance(n, ast.Call) and isinstance(n.func, ast.Attribute) and n.func.attr in STATE_MUTATORS:
            root = persistent_root(n.func.value)
            if root is not None:
                out.append((lib.enclosing_stmt(n), n, root))
    return out


def d4_memos(ctx, idx, st):
    r = ctx.rule('D4.MEMO', 'any memo written on the parse path outside the parser cache (module dict, attribute, "most recent" '
                            'slot) is written only after the parsing call returned normally', floor=2)
    with r:
        for q in (MOD + '.parse', MOD + '.evaluator'):
            fi = idx.func(q)
            calls = _parse_calls(idx, fi)
            stores = _persistent_stores(idx, fi)
            name = q.rsplit('.', 1)[-1] + '()'
            if not stores:
                r.ok('%s: memo' % name, 'keeps no state of its own besides the parser cache', fi.loc, nontrivial=False)
                continue
            if not calls:
                r.undecided('%s: memo' % name, 'persistent state is written but no parsing call was found', fi.loc)
                continue
            cfg = cfg_of(fi.node)
            blocked = set()
            call_stmts = []
            for c in calls:
                call_stmts.append(lib.enclosing_stmt(c))
                for rn in lib.cfg_nodes_for(cfg, c):
                    for t, lab in rn.succs:
                        if lab != 'exc':
                            blocked.add((rn, t, lab))
            reach = cfg.reach([cfg.entry], blocked_edges=blocked)
            for stmt, target, root in stores:
                where = lib.loc(fi, stmt)
                construct = '%s: store `%s`' % (name, short(target, 50))
                if any(stmt is cs for cs in call_stmts) and isinstance(stmt, ast.Assign) and any(stmt.value is c for c in calls):
                    r.ok(construct, 'assigns the result of the parsing call itself: executes only when it returned', where)
                    continue
                early = any(n in reach for n in cfg.nodes_of(stmt))
                r.check(not early, construct, 'reachable only after the parsing call returned normally',
                        'the persistent store `%s` (state `%s`, which survives the call) can execute although the parsing call `%s` '
                        'has not returned normally -- it runs before the parse, or on its exceptional exit. When the formula is '
                        'malformed the parse raises and this half of the memo stays behind (e.g. the key of the failed string next '
                        'to the value of the previous one), so a later call for that string is answered from the memo: the outcome '
                        'of a string depends on what was parsed before' % (short(stmt), root, short(calls[0])), where,
                        expected='stores of key and value after the parsing call', found=short(stmt))


# ----------------------------------------------------------------------------- D5
class Taint(object):
    """May-alias analysis: which expressions may be one of the usage sets of a (cached) MathExpression."""

    def __init__(self, idx):
        self.idx = idx
        self.ret = {}        # qualname -> set of positions (None = whole value, int = tuple element)
        self.params = {}     # qualname -> set of tainted parameter names
        self.funcs = [f for f in idx.package_funcs() if not f.qualname.startswith(MP + '.')]
        self.local = {}
        self.changed = True

    def run(self):
        rounds = 0
        while self.changed:
            self.changed = False
            rounds += 1
            if rounds > 20:
                raise AnalysisError('taint analysis did not converge')
            for fi in self.funcs:
                self.analyse(fi)

    def _add(self, table, key, item):
        s = table.setdefault(key, set())
        if item not in s:
            s.add(item)
            self.changed = True

    def tainted(self, fi, e, names):
        if isinstance(e, ast.Attribute):
            if e.attr in SETS and isinstance(e.ctx, ast.Load):
                return True
            return False
        if isinstance(e, ast.Name):
            return e.id in names
        if isinstance(e, ast.IfExp):
            return self.tainted(fi, e.body, names) or self.tainted(fi, e.orelse, names)
        if isinstance(e, ast.BoolOp):
            return any(self.tainted(fi, v, names) for v in e.values)
        if isinstance(e, ast.NamedExpr):
            return self.tainted(fi, e.value, names)
        if isinstance(e, ast.Subscript) and isinstance(e.slice, ast.Constant) and isinstance(e.slice.value, int):
            pos = self.call_positions(fi, e.value)
            return e.slice.value in pos
        if isinstance(e, ast.Call):
            return None in self.call_positions(fi, e)
        return False

    def call_positions(self, fi, e):
        if not isinstance(e, ast.Call):
            return set()
        targets, how = self.idx.resolve_call(fi, e)
        out = set()
        for t in targets:
            if not isinstance(t, tuple):
                out |= self.ret.get(t.qualname, set())
        return out

    def analyse(self, fi):
        names = set(self.params.get(fi.qualname, ()))
        # local aliases (flow-insensitive, iterate to a fixpoint)
        grew = True
        while grew:
            grew = False
            for n in walk_own(fi.node):
                if isinstance(n, ast.Assign):
                    for t in n.targets:
                        grew |= self._bind(fi, t, n.value, names)
                elif isinstance(n, ast.AnnAssign) and n.value is not None:
                    grew |= self._bind(fi, n.target, n.value, names)
                elif isinstance(n, ast.NamedExpr):
                    grew |= self._bind(fi, n.target, n.value, names)
        self.local[fi.qualname] = names
        for n in walk_own(fi.node):
            if isinstance(n, ast.Return) and n.value is not None:
                if self.tainted(fi, n.value, names):
                    self._add(self.ret, fi.qualname, None)
                if isinstance(n.value, ast.Tuple):
                    for i, elt in enumerate(n.value.elts):
                        if self.tainted(fi, elt, names):
                            self._add(self.ret, fi.qualname, i)
            elif isinstance(n, ast.Call):
                hot = [a for a in list(n.args) + [k.value for k in n.keywords] if self.tainted(fi, a, names)]
                if not hot:
                    continue
                targets, how = self.idx.resolve_call(fi, n)
                for t in targets:
                    if isinstance(t, tuple):
                        continue
                    for pname, arg in map_args(t, n).items():
                        if arg is not None and any(arg is h for h in hot):
                            self._add(self.params, t.qualname, pname)

    def _bind(self, fi, target, value, names):
        grew = False
        if isinstance(target, ast.Name):
            if target.id not in names and self.tainted(fi, value, names):
                names.add(target.id)
                grew = True
        elif isinstance(target, (ast.Tuple, ast.List)):
            if isinstance(value, (ast.Tuple, ast.List)) and len(value.elts) == len(target.elts):
                for t, v in zip(target.elts, value.elts):
                    grew |= self._bind(fi, t, v, names)
            else:
                pos = self.call_positions(fi, value)
                for i, t in enumerate(target.elts):
                    if i in pos and isinstance(t, ast.Name) and t.id not in names:
                        names.add(t.id)
                        grew = True
        return grew

    def sinks(self, fi):
        """Mutations of tainted values in fi: [(node, description)]."""
        names = self.local.get(fi.qualname, set())
        out = []
        for n in walk_own(fi.node):
            if isinstance(n, ast.Call) and isinstance(n.func, ast.Attribute) and n.func.attr in SET_MUTATORS \
                    and self.tainted(fi, n.func.value, names):
                out.append((n, '.%s()' % n.func.attr))
            elif isinstance(n, ast.AugAssign) and isinstance(n.op, INPLACE_OPS) and self.tainted(fi, _as_load(n.target), names):
                out.append((n, 'in-place `%s=`' % {ast.BitOr: '|', ast.BitAnd: '&', ast.Sub: '-', ast.BitXor: '^'}[type(n.op)]))
            elif isinstance(n, ast.Delete):
                for t in n.targets:
                    if isinstance(t, ast.Subscript) and self.tainted(fi, t.value, names):
                        out.append((n, 'del'))
        return out

    def touches(self, fi):
        names = self.local.get(fi.qualname, set())
        if names:
            return True
        return any(isinstance(n, ast.Attribute) and n.attr in SETS and isinstance(n.ctx, ast.Load) for n in walk_own(fi.node))


def _as_load(t):
    from ..index import clone
    c = clone(t)
    for n in ast.walk(c):
        if hasattr(n, 'ctx'):
            n.ctx = ast.Load()
    return c


def _self_state_writes(fn, me):
    """Every store INTO the instance in a method (nested lambdas/defs included): rebinding `self.x = ..`, subscript and
    augmented stores `self.x[k] = v`, `self.x += ..`, deletions, and mutating method calls on `self.x` / `self.x[k]`."""
    def field_of(e):
        cur = e
        while isinstance(cur, (ast.Subscript, ast.Attribute)):
            if isinstance(cur, ast.Attribute) and isinstance(cur.value, ast.Name) and cur.value.id == me:
                return cur.attr
            cur = cur.value
        return None
    out = []
    for n in ast.walk(fn):
        if isinstance(n, (ast.Assign, ast.AugAssign, ast.AnnAssign, ast.Delete)):
            targets = n.targets if isinstance(n, (ast.Assign, ast.Delete)) else [n.target]
            flat = []
            for t in targets:
                flat.extend(t.elts if isinstance(t, (ast.Tuple, ast.List)) else [t])
            for t in flat:
                if isinstance(t, (ast.Attribute, ast.Subscript)):
                    f = field_of(t)
                    if f is not None:
                        how = {ast.Assign: 'store', ast.AugAssign: 'augmented store', ast.AnnAssign: 'store', ast.Delete: 'delete'}[type(n)]
                        out.append((n, how if isinstance(t, ast.Attribute) else 'subscript ' + how, f))
        elif isinstance(n, ast.Call) and isinstance(n.func, ast.Attribute) and n.func.attr in SET_MUTATORS:
            f = field_of(n.func.value)
            if f is not None:
                out.append((n, 'mutating call .%s()' % n.func.attr, f))
        elif isinstance(n, ast.Call) and isinstance(n.func, ast.Name) and n.func.id == 'setattr' and n.args \
                and isinstance(n.args[0], ast.Name) and n.args[0].id == me:
            out.append((n, 'setattr', short(n.args[1]) if len(n.args) > 1 else '?'))
    return out


def _state_passed_to_mutators(idx, ms, fi, me, init_only_closures=False):
    """Calls in a method (nested lambdas/defs included) that hand `self.<attr>` (or something reached from it) to a resolved
    callee that mutates the corresponding parameter.  In __init__ only calls inside nested lambdas/defs count (they run later)."""
    out = []

    def attr_of(e):
        cur = e
        while isinstance(cur, (ast.Subscript, ast.Attribute)):
            if isinstance(cur, ast.Attribute) and isinstance(cur.value, ast.Name) and cur.value.id == me:
                return cur.attr
            cur = cur.value
        return None

    def visit(node, nested):
        for child in ast.iter_child_nodes(node):
            inner = nested or isinstance(child, (ast.Lambda, ast.FunctionDef))
            if isinstance(child, ast.Call) and (nested or not init_only_closures):
                hot = [(a, attr_of(a)) for a in list(child.args) + [k.value for k in child.keywords]]
                hot = [(a, f) for a, f in hot if f is not None]
                if hot:
                    targets, how = idx.resolve_call(fi, child)
                    for t in targets:
                        if isinstance(t, tuple):
                            continue
                        summ = ms.mutated_params(t)
                        for pname, arg in map_args(t, child).items():
                            for a, f in hot:
                                if arg is a and pname in summ:
                                    out.append((child, a, f, t, pname))
            visit(child, inner)
    visit(fi.node, False)
    return out


def d5_consumers(ctx, idx, st):
    r = ctx.rule('D5.WMW', 'no site of the package mutates the usage sets or the tree of a (cached) expression', floor=10)
    with r:
        # fields of MathExpression are written only in __init__
        ci = idx.cls(ME)
        fields = set()
        init = ci.methods.get('__init__')
        if init is None:
            raise AnalysisError('MathExpression.__init__ not found')
        for n in walk_own(init.node):
            if isinstance(n, ast.Assign):
                for t in n.targets:
                    if isinstance(t, ast.Attribute) and isinstance(t.value, ast.Name) and t.value.id == init.params[0]:
                        fields.add(t.attr)
        if not SETS <= fields or 'tree' not in fields:
            raise AnalysisError('MathExpression.__init__ does not define %s' % sorted((SETS | {'tree'}) - fields))
        for name, fi in sorted(ci.methods.items()):
            if name == '__init__' or not fi.params or fi.is_static:
                continue
            me = fi.params[0]
            for n, how, attr in _self_state_writes(fi.node, me):
                if fi.qualname in (getattr(idx, 'unreviewed', None) or []):
                    # the write sits in the (un-inlinable) helper itself, which is analysed right here: it is reviewed
                    idx.unreviewed = [q for q in idx.unreviewed if q != fi.qualname]
                r.violation('MathExpression.%s: write to self.%s' % (name, attr), '`%s` (%s) writes into the state of a parsed expression '
                            'outside __init__; the expression object lives in the process-wide parser cache, so whatever is stored '
                            'there by one parse/evaluation is seen by every later evaluation of the same formula (its outcome then '
                            'depends on history, e.g. on the scope of an earlier call)' % (short(n), how), lib.loc(fi, n),
                            expected='no store into self.<field> outside __init__', found=short(n))
        ms0 = MutationSummaries(idx)
        for name, fi in sorted(ci.methods.items()):
            if not fi.params or fi.is_static:
                continue
            me = fi.params[0]
            for call, arg, attr, callee, pname in _state_passed_to_mutators(idx, ms0, fi, me, init_only_closures=(name == '__init__')):
                r.violation('MathExpression.%s: self.%s handed to %s' % (name, attr, callee.name), '`%s` passes `%s` -- an object hanging off '
                            'the expression -- to %s, which mutates its parameter `%s`. The expression lives in the process-wide parser '
                            'cache, so what one evaluation writes there (e.g. the maximal array dimension met) is still there in the next '
                            'evaluation of the same formula, possibly with another scope: per-evaluation state must be a fresh object '
                            'created in eval()' % (short(call), short(arg), callee.qualname.split('.')[-1], pname), lib.loc(fi, call),
                            expected='a fresh local object per evaluation', found=short(arg))
        r.ok('MathExpression: field writes', 'only in __init__ (%s)' % ', '.join(sorted(fields)), init.loc)
        # stores to .X_used anywhere else
        builder_cls = find_visitor(idx)['cls'].qualname if st.get('mode') == 'visitor' else None
        for fi in idx.package_funcs():
            if fi.qualname in (ME + '.__init__', MP + '.__init__', MP + '.reset_storage'):
                continue
            if builder_cls and fi.cls is not None and fi.cls.qualname == builder_cls:
                continue        # the collector object fills its own fresh sets before they are handed to the expression
            for n in walk_own(fi.node):
                if isinstance(n, (ast.Assign, ast.AugAssign)):
                    tg = n.targets if isinstance(n, ast.Assign) else [n.target]
                    for t in tg:
                        for x in ([t] if not isinstance(t, (ast.Tuple, ast.List)) else t.elts):
                            if isinstance(x, ast.Attribute) and x.attr in SETS:
                                r.violation('%s: store to .%s' % (fi.qualname, x.attr), '`%s` replaces a usage set of an expression '
                                            'or of the parser outside the constructor/reset' % short(n), lib.loc(fi, n))
        # taint: reads of the sets never reach a mutation
        ta = Taint(idx)
        ta.run()
        st['taint'] = ta
        consumers = 0
        for fi in ta.funcs:
            if not ta.touches(fi):
                continue
            if builder_cls and fi.cls is not None and fi.cls.qualname == builder_cls:
                continue
            consumers += 1
            sinks = ta.sinks(fi)
            if sinks:
                for n, how in sinks:
                    r.violation('%s: usage set' % fi.qualname, '`%s` (%s) mutates, outside the parser, a set that is (an alias of) the '
                                'variables/functions/suffixes_used of a parse result; parse results are cached process-wide, so '
                                'every later parse or evaluation of the same formula reports the altered name set (take a copy, '
                                'e.g. set(x) / x.union(...), before adding to it)' % (short(n), how),
                                lib.loc(fi, n))
            else:
                got = sorted(ta.local.get(fi.qualname, ()))
                r.ok('%s: usage set' % fi.qualname, 'read-only%s' % (' (aliases: %s)' % ', '.join(got) if got else ''), fi.loc)
        # external callees that receive a usage set must be known non-mutating
        # the cached tree is only read
        ms = MutationSummaries(idx)
        en = idx.func(ME + '.eval_node')
        mp = ms.mutated_params(en)
        first = en.params[0]
        r.check(first not in mp, 'MathExpression.eval_node: tree', 'parameter %s is never mutated (directly or through callees)' % first,
                'eval_node mutates the parse tree it is given (%s): the tree belongs to a cached expression, so the next evaluation of '
                'the same formula sees a different tree' % (mp.get(first, ['?'])[0],), en.loc)
        ev = idx.func(ME + '.eval')
        call = lib.one_call(ev, 'eval_node')
        a0 = call.args[0] if call.args else None
        r.check(a0 is not None and nf.match('%s.tree' % ev.params[0], a0) is not None, 'MathExpression.eval: tree argument',
                'self.tree', 'eval evaluates `%s` instead of self.tree' % (short(a0) if a0 is not None else '?'), lib.loc(ev, call))


# ----------------------------------------------------------------------------- D6
def recording_inside(g, t):
    return [n for n in g.nodes(t) if any(a.kind == 'method' for a in n.actions)]


def d6_determinism(ctx, idx, st):
    r = ctx.rule('D6.LL1', 'no abandoned sub-parse that recorded a name can be followed by overall success', floor=21)
    with r:
        g = st.get('g') or G.extract(idx)
        atom, alts, elems = st.get('atom'), st.get('alts'), st.get('elems')
        if atom is None:
            atom, alts, elems = recording_elements(g, idx)
        var, fun, suf = elems['variable'], elems['function'], elems['suffix']
        if st.get('mode') == 'visitor':
            r.ok('grammar: recording during the parse', 'none: abandoned sub-parses cannot leave names behind', gloc(g, atom), nontrivial=False)
            C03.emdash_parity(r, g, 'with the em-dash the numeral ends before the exponent, so `2e\u20143` yields a suffix `e` that a '
                                    'reader of the formula (2e-3) does not see: a spurious suffix in the reported usage')
            r.floor = min(r.floor, r.n)
            return
        # (i) ordered choices with a recording alternative
        for t in g.nodes():
            if t.kind != 'first':
                continue
            for i, a in enumerate(t.kids):
                if not recording_inside(g, a):
                    continue
                for b in t.kids[i + 1:]:
                    common = g.first(a) & g.first(b)
                    construct = 'choice %s | %s' % (a.name or a.label or a.describe(1), b.name or b.label or b.describe(1))
                    if not common:
                        r.ok(construct, 'FIRST sets disjoint', gloc(g, t))
                        continue
                    if a is fun and b is var:
                        # both start with the same name sub-grammar ...
                        fa = g.shapes(a, reps=1)[0][0][1]
                        fb = g.shapes(b, reps=1)[0][0][1]
                        same = fa.kids is fb.kids or fa is fb
                        if not same:
                            r.undecided(construct, 'function and variable names are built from different sub-grammars', gloc(g, t))
                            continue
                        body = a.kids[0]
                        after = body.kids[1] if body.kind == 'and' and len(body.kids) > 1 else None
                        opener = g.literal_tokens(after) if after is not None else None
                        if not opener or len(opener) != 1:
                            r.undecided(construct, 'token after the function name not recognised', gloc(g, t))
                            continue
                        ch = next(iter(opener))[0]
                        fv = g.follow(b)
                        r.check(ch not in fv, construct, "share the name; separated by '%s' which cannot follow a variable" % ch,
                                "a variable may be followed by '%s' (FOLLOW(variable) = %s): `x%sy)` has a reading as function call and "
                                "one as variable followed by a bracket, so functions and variables are confused, and the names "
                                "recorded inside an abandoned function attempt survive when the variable reading succeeds"
                                % (ch, G.show_chars(fv), ch), gloc(g, t), expected="'%s' not in FOLLOW(variable)" % ch,
                                found=G.show_chars(fv))
                    elif a is var and b is fun:
                        r.undecided(construct, 'variable is tried before function (see C03-D1)', gloc(g, t))
                    else:
                        r.undecided(construct, 'alternatives overlap on %s and the first one records names: an abandoned attempt '
                                    'may leave spurious names' % G.show_chars(common), gloc(g, t))
        # (ii) repetitions / optionals whose body can record
        for t in g.nodes():
            if t.kind not in ('star', 'plus', 'opt'):
                continue
            body = t.kids[0]
            if not recording_inside(g, body):
                continue
            fb, fo = g.first(body), g.follow(t)
            common = fb & fo
            what = {'star': 'ZeroOrMore', 'plus': 'OneOrMore', 'opt': 'Optional'}[t.kind]
            construct = '%s starting with %s before %s' % (what, G.show_chars(fb), G.show_chars(fo))
            if not common:
                r.ok(construct, 'FIRST(body) = %s, disjoint from FOLLOW = %s' % (G.show_chars(fb), G.show_chars(fo)), gloc(g, t))
                continue
            if (body is suf or suf in g.nodes(body)) and t.kind == 'opt' and common & (g.first(var) | g.first(fun)):
                r.violation(construct, 'a number may be followed directly by %s, which is also how a suffix starts: `2x` can be read '
                            'as 2 with suffix x or as 2 followed by the name x, so suffixes and variables/functions are confused '
                            'in the reported usage' % G.show_chars(common & (g.first(var) | g.first(fun))), gloc(g, t),
                            expected='FIRST(suffix) disjoint from FOLLOW(number)', found=G.show_chars(common))
            else:
                r.undecided(construct, 'FIRST(body) and FOLLOW overlap on %s: an iteration abandoned after recording may be followed '
                            'by success' % G.show_chars(common), gloc(g, t))
        # (v) the em-dash is admitted wherever '-' is: otherwise the other dash ends the numeral early and what follows is recorded
        #     as a suffix that is not in the formula
        C03.emdash_parity(r, g, 'with the em-dash the numeral ends before the exponent, so `2e\u20143` records a suffix `e` that a '
                                'reader of the formula (2e-3) does not see: a spurious suffix in the reported usage')
        # (iv) nothing records inside a Combine
        for t in g.nodes():
            if t.kind != 'combine':
                continue
            inside = [n for n in g.nodes(t) if n is not t and any(a.kind == 'method' for a in n.actions)]
            r.check(not inside, 'Combine %s' % (t.name or t.label or t.describe(1)), 'no recording action inside',
                    'a recording action sits inside a Combine (on `%s`): it fires during partial matches of the token (e.g. the `^{` '
                    'of a tensor index, the `E` of an exponent) that the parser abandons' % (inside[0].describe(1) if inside else ''),
                    gloc(g, t))


# ----------------------------------------------------------------------------- D7
def d7_singleton(ctx, idx, st):
    r = ctx.rule('D7.PARSER', 'one module-level PARSER; parse() and evaluator() go through MathParser.parse; nothing else fills the cache', floor=4)
    with r:
        m = idx.module(MOD)
        vals = m.assigns.get('PARSER', [])
        if not vals:
            raise AnalysisError('no module-level binding of PARSER found')
        good = len(vals) == 1 and isinstance(vals[0], ast.Call) and nf.callee_name(vals[0]) == 'MathParser' and not vals[0].args
        r.check(good, 'PARSER', 'bound once, to MathParser()', 'PARSER is bound %d time(s)%s' % (
            len(vals), '' if not vals else ' to `%s`' % short(vals[-1])), lib.mloc(m, vals[0]) if vals else m.relpath)
        for f in idx.package_funcs():
            for n in walk_own(f.node):
                if isinstance(n, (ast.Assign, ast.AugAssign)):
                    for t in (n.targets if isinstance(n, ast.Assign) else [n.target]):
                        if isinstance(t, ast.Name) and t.id == 'PARSER' and any(isinstance(x, ast.Global) and 'PARSER' in x.names
                                                                                for x in walk_own(f.node)):
                            r.violation('%s: PARSER' % f.qualname, 'the shared parser is rebound at run time', lib.loc(f, n))
        pf = idx.func(MOD + '.parse')
        rets = lib.returns_of(pf.node)
        ok = len(rets) == 1 and nf.match('PARSER.parse(%s)' % pf.params[0], lib.inline_locals(rets[0].value, pf.node)) is not None
        if ok:
            r.ok('parse()', 'PARSER.parse(formula)', pf.loc)
        else:
            v = rets[0].value if rets else None
            if v is not None and isinstance(v, ast.Call) and nf.callee_name(v) == 'raw_parse':
                r.violation('parse()', 'parse() calls raw_parse directly: the cache and the space normalisation of MathParser.parse are '
                            'bypassed, so parse(s) and evaluator(s) disagree on strings containing blanks', pf.loc,
                            expected='PARSER.parse(formula)', found=short(v))
            elif v is not None and isinstance(v, ast.Call) and nf.callee_name(v) == 'parse' and isinstance(v.func, ast.Attribute) \
                    and isinstance(v.func.value, ast.Call) and nf.callee_name(v.func.value) == 'MathParser':
                r.ok('parse()', 'a fresh parser per call (no shared state at all)', pf.loc)
            else:
                res = _memoised_parse(idx, pf)
                if res is True:
                    r.ok('parse()', 'PARSER.parse(formula), with a memo keyed by the formula itself (stores checked by D4.MEMO)', pf.loc)
                else:
                    r.undecided('parse()', res or '`%s` not recognised' % (short(v) if v is not None else 'no return'), pf.loc)
        ev = idx.func(MOD + '.evaluator')
        pcs = [c for c in walk_own(ev.node) if isinstance(c, ast.Call) and nf.callee_name(c) in ('parse', 'raw_parse')]
        if len(pcs) != 1:
            raise AnalysisError('evaluator: expected one parse call, found %d' % len(pcs))
        c = pcs[0]
        targets, how = idx.resolve_call(ev, c)
        tq = sorted(t.qualname for t in targets if not isinstance(t, tuple))
        r.check(tq in ([MOD + '.parse'], [MP + '.parse']), 'evaluator(): parse call', 'goes through %s' % (tq[0] if tq else '?'),
                'evaluator parses with `%s` (%s) instead of parse()/PARSER.parse: cache and space normalisation are bypassed'
                % (short(c), ', '.join(tq) or 'unresolved'), lib.loc(ev, c))
        # other users of raw_parse / writers of a parser cache
        users = []
        for f in idx.package_funcs():
            for n in walk_own(f.node):
                if isinstance(n, ast.Call) and nf.callee_name(n) == 'raw_parse' and f.qualname != MP + '.parse':
                    users.append((f, n))
        for f, n in users:
            if f.qualname in (MOD + '.parse', MOD + '.evaluator'):
                continue
            if f.cls is not None and f.cls.qualname == MP:
                continue          # a private helper of the parser itself (MathParser.parse split into pieces)
            r.violation('%s: raw_parse' % f.qualname, 'raw_parse is called outside MathParser.parse: results bypass the cache and '
                        'the space normalisation', lib.loc(f, n))
        writers = []
        for f in idx.package_funcs():
            if f.qualname in (MP + '.parse', MP + '.__init__'):
                continue
            for n in walk_own(f.node):
                tgt = None
                if isinstance(n, ast.Assign):
                    for t in n.targets:
                        if isinstance(t, ast.Subscript) and isinstance(t.value, ast.Attribute) and t.value.attr == 'cache' \
                                and _is_parser(idx, f, t.value.value):
                            tgt = t
                elif isinstance(n, ast.Call) and isinstance(n.func, ast.Attribute) and n.func.attr in ('update', 'setdefault', '__setitem__') \
                        and isinstance(n.func.value, ast.Attribute) and n.func.value.attr == 'cache' and _is_parser(idx, f, n.func.value.value):
                    tgt = n
                if tgt is not None:
                    writers.append((f, n))
        for f, n in writers:
            r.violation('%s: parser cache' % f.qualname, '`%s` fills the parser cache outside MathParser.parse: the outcome for a '
                        'formula then depends on what ran before' % short(n), lib.loc(f, n))
        if not writers and not [u for u in users if u[0].qualname not in (MOD + '.parse', MOD + '.evaluator')
                                and not (u[0].cls is not None and u[0].cls.qualname == MP)]:
            r.ok('package: cache writers / raw_parse callers', 'only MathParser.parse', '')


def _memoised_parse(idx, pf):
    """parse() with a memo in front of PARSER.parse: every return is PARSER.parse(formula) (directly, through a local or
    through the memo slot that was just assigned from it) or a memo value read under the guard `formula == <memo key>`,
    where the key slot is only ever assigned the formula and the value slot only the result of PARSER.parse(formula).
    True, or a text saying what was not understood."""
    F = pf.params[0]
    calls = [c for c in walk_own(pf.node) if isinstance(c, ast.Call) and nf.match('PARSER.parse(%s)' % F, c) is not None]
    if not calls:
        return 'no call PARSER.parse(%s)' % F
    stores = _persistent_stores(idx, pf)
    slots = {}
    for stmt, target, root in stores:
        if not (isinstance(stmt, ast.Assign) and isinstance(target, (ast.Subscript, ast.Attribute)) and len(stmt.targets) == 1):
            return 'memo store `%s` not understood' % short(stmt)
        slots.setdefault(unparse(target), []).append(stmt.value)
    env = lib.local_env(pf.node)

    def is_result(e):
        e = nf.subst(e, env)
        return any(nf.equal(nf.canon(e), nf.canon(c)) for c in calls)
    key_slots = {k for k, vals in slots.items() if all(isinstance(v, ast.Name) and v.id == F for v in vals)}
    val_slots = {k for k, vals in slots.items() if all(is_result(v) for v in vals)}
    if set(slots) - key_slots - val_slots:
        return 'memo slot `%s` holds something other than the formula or the parse result' % sorted(set(slots) - key_slots - val_slots)[0]
    for p in nf.decision_paths(pf.node.body, keep_locals=()):
        if p.leaf.kind != 'ret':
            continue
        v = p.leaf.expr
        if any(nf.equal(v, nf.canon(c)) for c in calls):
            continue
        text = unparse(v)
        if text in val_slots:
            hit = any(any(nf.match('%s == %s' % (F, k), g_) is not None for k in key_slots) for g_ in p.guards)
            assigned_here = any(isinstance(e_, ast.Assign) and unparse(e_.targets[0]) == text for e_ in p.effects)
            if hit or assigned_here:
                continue
            return 'the memo value `%s` is returned without the guard `%s == <memo key>`' % (text, F)
        return 'return value `%s` not recognised' % short(v)
    return True


def _is_parser(idx, fi, recv):
    if isinstance(recv, ast.Name) and recv.id == 'PARSER':
        return True
    if isinstance(recv, ast.Name) and fi.cls is not None and fi.cls.qualname == MP and fi.params and recv.id == fi.params[0]:
        return True
    return False


# ------------------------------------------------------------------------- thorough tier
def thorough(ctx):
    """Cross-check of D2 by bounded path enumeration (independent of the reachability formulation), and of D6 by running
    the extracted grammar as a recogniser on strings whose function attempt is abandoned after recording."""
    idx = ctx.index
    r = ctx.rule('T.PATHS', 'every enumerated path of raw_parse from the parseString call to an exit contains reset_storage', floor=2)
    with r:
        rp = idx.func(MP + '.raw_parse')
        cfg = cfg_of(rp.node)
        pc = lib.calls_named(rp.node, ('parseString', 'parse_string'))[0]
        resets = lib.calls_named(rp.node, 'reset_storage')
        through = {n for c in resets for n in lib.cfg_nodes_for(cfg, c)}
        n_paths = 0
        for start in lib.cfg_nodes_for(cfg, pc):
            paths, truncated = cfg.enumerate_paths(start, limit=10000)
            if truncated:
                r.undecided('raw_parse: paths', 'more than 10000 paths')
            for path in paths:
                n_paths += 1
                if not any(n in through for n in path[1:]):
                    r.violation('raw_parse: path %d' % n_paths, 'path %s reaches an exit without reset_storage'
                                % ' -> '.join(repr(n) for n in path[:6]), lib.loc(rp, pc))
        r.ok('raw_parse: enumerated paths', '%d paths, all pass reset_storage' % n_paths, rp.loc)
        r.ok('raw_parse: agreement with D2', 'path enumeration and reachability query agree', rp.loc)
    r2 = ctx.rule('T.ABANDON', 'strings whose function/bracket attempt is abandoned after recording are rejected as a whole', floor=6)
    with r2:
        g = G.extract(idx)
        for s_ in ['f(x+)', 'f(x,)', 'f(x)(y)', '(x+)', '[x,]', 'f(g(x)+)', '2x(y+)', 'x^(y*)']:
            got = g.match(g.root, s_, 0) is not None
            r2.check(not got, 'probe %r' % s_, 'rejected: the names recorded in the abandoned attempt are discarded by D2',
                     'the grammar accepts %r although a sub-parse that recorded names was abandoned' % s_,
                     '%s:%d' % (g.module.relpath, g.fi.node.lineno))


# ------------------------------------------------------------------------ self-test
MH = 'mitxgraders/helpers/math_helpers.py'
SAMPLING = 'mitxgraders/sampling.py'
INTEGRAL = 'mitxgraders/formulagrader/integralgrader.py'
_PRODUCT = "product = parallel + ZeroOrMore((Literal('*') | Literal('/'))(\"op\") + parallel)"
_RAW_OLD = "        try:\n            BracketValidator.validate(expression)\n            tree = self.grammar.parseString(expression)[0]\n            parsed = MathExpression(expression,\n                                    tree,\n                                    self.variables_used,\n                                    self.functions_used,\n                                    self.suffixes_used)\n"
_FINALLY = "        except:\n            raise\n        finally:\n            self.reset_storage()\n\n        return parsed"

_COLLECTOR = ("class UsageCollector(object):\n    branches = (%s)\n\n    def __init__(self, tree):\n        self.variables_used = set()\n"
              "        self.functions_used = set()\n        self.suffixes_used = set()\n        self.visit(tree)\n\n"
              "    def visit(self, node):\n        node_name = node.getName()\n        if node_name == 'variable':\n"
              "            self.variables_used.add(node[0])\n        elif node_name == 'function':\n            self.functions_used.add(node[0])\n"
              "            self.visit(node[1])\n        elif node_name == 'number':\n            self.suffixes_used.update(node[1:])\n"
              "        elif node_name in self.branches:\n            for child in node:\n                if isinstance(child, ParseResults):\n"
              "                    self.visit(child)\n\n\nclass MathParser(object):")
_VISITOR_EDITS = lambda kinds: [
    ("class MathParser(object):", _COLLECTOR % kinds),
    ("        suffix.setParseAction(self.suffix_parse_action)\n", ""),
    ("        variable.setParseAction(self.variable_parse_action)\n", ""),
    ("        function.setParseAction(self.function_parse_action)\n", ""),
    (_RAW_OLD + _FINALLY, "        BracketValidator.validate(expression)\n        tree = self.grammar.parseString(expression)[0]\n"
     "        usage = UsageCollector(tree)\n        return MathExpression(expression, tree, usage.variables_used, usage.functions_used, "
     "usage.suffixes_used)"),
]

MUTANTS = [
    Mutant('usage-read-off-the-tree-by-a-visitor-that-skips-parallel', EXPR,
           _VISITOR_EDITS("'arguments', 'array', 'power', 'negation', 'product', 'sum', 'parentheses'"), None, 'D1',
           note='seeded C10k: parse actions replaced by a tree visitor whose branch table lacks parallel: names inside a||b are lost'),
    # D1
    Mutant('variable-recorded-as-function', EXPR, "self.variables_used.add(tokens[0][0])", "self.functions_used.add(tokens[0][0])", 'D1'),
    Mutant('suffix-records-first-character', EXPR, "self.suffixes_used.add(tokens[0])", "self.suffixes_used.add(tokens[0][0])", 'D1'),
    Mutant('function-action-on-the-shared-name', EXPR, "        # Define a variable as a pyparsing result that contains one object name\n",
           "        name.setParseAction(self.function_parse_action)\n", 'D1'),
    Mutant('suffix-action-dropped', EXPR, "        suffix.setParseAction(self.suffix_parse_action)\n", "", 'D1'),
    Mutant('sets-swapped-at-construction', EXPR, "                                    self.variables_used,\n                                    self.functions_used,",
           "                                    self.functions_used,\n                                    self.variables_used,", 'D1'),
    Mutant('fields-crossed-in-init', EXPR, "        self.variables_used = variables_used\n        self.functions_used = functions_used",
           "        self.variables_used = functions_used\n        self.functions_used = variables_used", 'D1'),
    # D2
    Mutant('reset-moved-out-of-finally', EXPR, _FINALLY, "        except:\n            raise\n\n        self.reset_storage()\n        return parsed", 'D2'),
    Mutant('reset-dropped', EXPR, _FINALLY, "        except:\n            raise\n\n        return parsed", 'D2'),
    Mutant('reset-behind-narrow-handler', EXPR, _FINALLY,
           "        except ParseException:\n            BracketValidator.validate(expression)\n            self.reset_storage()\n            raise\n\n"
           "        self.reset_storage()\n        return parsed", 'D2',
           note='seeded: only ParseException is handled and validate() runs before the reset'),
    Mutant('reset-on-success-and-in-the-parse-exception-handler-only', EXPR, [
        (_RAW_OLD + _FINALLY, "        BracketValidator.validate(expression)\n        tree = self.grammar.parseString(expression)[0]\n"
         "        used = (self.variables_used, self.functions_used, self.suffixes_used)\n        self.reset_storage()\n"
         "        return MathExpression(expression, tree, *used)"),
        ("        except ParseException:\n            msg =", "        except ParseException:\n            self.reset_storage()\n            msg ="),
    ], None, 'D2', note='seeded C11i: a RecursionError while parsing leaves the recorded names in the shared parser'),
    # D3
    Mutant('clear-instead-of-fresh-set', EXPR, "    def reset_storage(self):\n        self.variables_used = set()", "    def reset_storage(self):\n        self.variables_used.clear()", 'D3'),
    Mutant('reset-forgets-suffixes', EXPR, "        self.functions_used = set()\n        self.suffixes_used = set()\n\n    def variable_parse_action",
           "        self.functions_used = set()\n\n    def variable_parse_action", 'D3'),
    # D4
    Mutant('failure-cached', EXPR, "        except ParseException:\n            msg = \"Invalid Input: Could not parse",
           "        except ParseException:\n            self.cache[cache_key] = None\n            msg = \"Invalid Input: Could not parse", 'D4'),
    Mutant('cache-keyed-by-raw-string', EXPR, "cache_key = expression_no_whitespace", "cache_key = expression", 'D4'),
    Mutant('raw-string-parsed', EXPR, "parsed = self.raw_parse(expression_no_whitespace)", "parsed = self.raw_parse(expression)", 'D4'),
    Mutant('cache-key-strips-all-whitespace', EXPR, "cache_key = expression_no_whitespace", "cache_key = ''.join(expression.split())", 'D4',
           note='seeded: once 10 is cached, 1<TAB>0 hits that entry and evaluates to 10 instead of being rejected'),
    Mutant('parsed-text-strips-all-whitespace', EXPR, "parsed = self.raw_parse(expression_no_whitespace)",
           "parsed = self.raw_parse(''.join(expression.split()))", 'D4'),
    Mutant('most-recent-formula-memo-keyed-before-the-parse', EXPR, "    return PARSER.parse(formula)",
           "    if formula == _latest['formula']:\n        return _latest['parsed']\n    _latest['formula'] = formula\n"
           "    _latest['parsed'] = PARSER.parse(formula)\n    return _latest['parsed']\n\n_latest = {'formula': None, 'parsed': None}", 'D4',
           note='seeded C10h: after parse("1+") raised, the slot holds key "1+" next to the previous expression; parse("1+") then returns it'),
    # D5
    Mutant('consumer-accumulates-into-cached-set', MH, "vars_used = set().union(*[p.variables_used for p in parsed_expressions])",
           "vars_used = parsed_expressions[0].variables_used if parsed_expressions else set()\n        for p in parsed_expressions:\n            vars_used.update(p.variables_used)", 'D5'),
    Mutant('sampler-edits-dependency-set', SAMPLING, "            self.config['depends'] = list(parsed.variables_used)",
           "            deps = parsed.variables_used\n            deps.discard('pi')\n            self.config['depends'] = list(deps)", 'D5'),
    Mutant('integral-unions-in-place', INTEGRAL, "used_funcs = lower_used.functions_used.union(upper_used.functions_used, expression_used.functions_used)",
           "used_funcs = expression_used.functions_used\n        used_funcs |= lower_used.functions_used\n        used_funcs |= upper_used.functions_used", 'D5'),
    Mutant('number-literal-memoised-on-the-expression', EXPR,
           "        actions = {\n            'number': lambda parse_result: self.eval_number(parse_result, suffixes),",
           "        if not hasattr(self, 'number_values'):\n            self.number_values = {}\n\n"
           "        def number_value(parse_result):\n            literal = tuple(parse_result)\n"
           "            if literal not in self.number_values:\n"
           "                self.number_values[literal] = self.eval_number(parse_result, suffixes)\n"
           "            return self.number_values[literal]\n\n"
           "        actions = {\n            'number': number_value,", 'D5',
           note='seeded C03c: the memo key ignores the suffix table of the call; 2k evaluated with k=1000 then k=1024 still gives 2000'),
    Mutant('per-evaluation-metadata-moved-to-the-expression', EXPR, [
        ("        self.tree = tree\n", "        self.tree = tree\n        self.metadata_dict = {'max_array_dim_used': 0}\n"),
        ("        metadata_dict = {'max_array_dim_used': 0}\n", ""),
        ("self.eval_array(parse_result, metadata_dict)", "self.eval_array(parse_result, self.metadata_dict)"),
        ("max_array_dim_used=metadata_dict['max_array_dim_used'])", "max_array_dim_used=self.metadata_dict['max_array_dim_used'])"),
    ], None, 'D5', note='seeded C10i/C11j: the maximal array dimension survives from one evaluation of a cached expression to the next'),
    # D6
    Mutant('exponent-sign-loses-the-em-dash', EXPR, "Optional(CaselessLiteral(\"E\") + Optional(plus_minus) + number_part)",
           "Optional(CaselessLiteral(\"E\") + Optional(Literal(\"+\") | Literal(\"-\")) + number_part)", 'D6',
           note='seeded C10j: 2e\u20143 records a spurious suffix e'),
    Mutant('implicit-multiplication-before-parentheses', EXPR, _PRODUCT,
           "product = parallel + ZeroOrMore(((Literal('*') | Literal('/'))(\"op\") + parallel) | parentheses)", 'D6'),
    Mutant('operator-made-optional', EXPR, _PRODUCT,
           "product = parallel + ZeroOrMore(Optional(Literal('*') | Literal('/'))(\"op\") + parallel)", 'D6'),
    # D7
    Mutant('parse-bypasses-cache', EXPR, "    return PARSER.parse(formula)", "    return PARSER.raw_parse(formula)", 'D7'),
    Mutant('evaluator-bypasses-cache', EXPR, "    parsed = parse(formula)\n", "    parsed = PARSER.raw_parse(formula)\n", 'D7'),
    Mutant('evaluator-fills-cache-itself', EXPR, "    parsed = parse(formula)\n", "    parsed = parse(formula)\n    PARSER.cache[formula] = parsed\n", 'D7'),
]

BENIGN = [
    Benign('usage-read-off-the-tree-by-a-complete-visitor', EXPR,
           _VISITOR_EDITS("'arguments', 'array', 'power', 'negation', 'parallel', 'product', 'sum', 'parentheses'"), None),
    Benign('explicit-reset-on-both-paths', EXPR, _FINALLY,
           "        except:\n            self.reset_storage()\n            raise\n\n        self.reset_storage()\n        return parsed"),
    Benign('reset-as-tuple-assignment', EXPR, "    def reset_storage(self):\n        self.variables_used = set()\n        self.functions_used = set()\n        self.suffixes_used = set()\n",
           "    def reset_storage(self):\n        self.variables_used, self.functions_used, self.suffixes_used = set(), set(), set()\n"),
    Benign('used-vars-by-copying-loop', MH, "vars_used = set().union(*[p.variables_used for p in parsed_expressions])",
           "vars_used = set()\n        for p in parsed_expressions:\n            vars_used |= p.variables_used"),
    Benign('log-in-raw-parse', EXPR, "            BracketValidator.validate(expression)\n            tree =", "            BracketValidator.validate(expression)\n            print('parsing', expression)\n            tree ="),
    Benign('action-with-local', EXPR, "        self.variables_used.add(tokens[0][0])", "        varname = tokens[0][0]\n        self.variables_used.add(varname)"),
    Benign('metadata-positional', EXPR, "            metadata = EvalMetaData(variables_used=self.variables_used,\n                                    functions_used=self.functions_used,\n                                    suffixes_used=self.suffixes_used,\n                                    max_array_dim_used=metadata_dict['max_array_dim_used'])",
           "            metadata = EvalMetaData(self.variables_used, self.functions_used, self.suffixes_used,\n                                    metadata_dict['max_array_dim_used'])"),
    Benign('constructor-copies-sets', EXPR, "        self.variables_used = variables_used\n        self.functions_used = functions_used\n        self.suffixes_used = suffixes_used",
           "        self.variables_used = set(variables_used)\n        self.functions_used = set(functions_used)\n        self.suffixes_used = set(suffixes_used)"),
    Benign('init-calls-reset-storage', EXPR, "        self.variables_used = set()\n        self.functions_used = set()\n        self.suffixes_used = set()\n        self.max_array_dim_used = 0",
           "        self.reset_storage()\n        self.max_array_dim_used = 0"),
    Benign('raw-parse-returns-inside-try-finally', EXPR,
           "            parsed = MathExpression(expression,\n                                    tree,\n                                    self.variables_used,\n"
           "                                    self.functions_used,\n                                    self.suffixes_used)\n" + _FINALLY,
           "            return MathExpression(expression, tree, self.variables_used, self.functions_used, self.suffixes_used)\n"
           "        finally:\n            self.reset_storage()"),
    Benign('cache-lookup-by-keyerror', EXPR, "        if expression_no_whitespace in self.cache:\n            return self.cache[cache_key]\n",
           "        try:\n            return self.cache[cache_key]\n        except KeyError:\n            pass\n"),
    Benign('fill-on-miss-single-return', EXPR,
           "        if expression_no_whitespace in self.cache:\n            return self.cache[cache_key]\n\n        try:\n"
           "            parsed = self.raw_parse(expression_no_whitespace)\n        except ParseException:\n"
           "            msg = \"Invalid Input: Could not parse '{}' as a formula\"\n            raise UnableToParse(msg.format(expression))\n\n"
           "        self.cache[cache_key] = parsed\n        return parsed\n",
           "        if cache_key not in self.cache:\n            try:\n                self.cache[cache_key] = self.raw_parse(cache_key)\n"
           "            except ParseException:\n                raise UnableToParse(f\"Invalid Input: Could not parse '{expression}' as a formula\")\n\n"
           "        return self.cache[cache_key]\n"),
    Benign('most-recent-formula-memo-written-after-the-parse', EXPR, "    return PARSER.parse(formula)",
           "    if formula == _latest['formula']:\n        return _latest['parsed']\n    parsed = PARSER.parse(formula)\n"
           "    _latest['formula'] = formula\n    _latest['parsed'] = parsed\n    return parsed\n\n_latest = {'formula': None, 'parsed': None}"),
    Benign('reset-by-a-with-manager-class', EXPR,
           "    def raw_parse(self, expression):\n        \"\"\"\n        Try to parse a string and cache the result. ALWAYS clears storage.\n        \"\"\"\n"
           "        try:\n            BracketValidator.validate(expression)\n            tree = self.grammar.parseString(expression)[0]\n"
           "            parsed = MathExpression(expression,\n                                    tree,\n                                    self.variables_used,\n"
           "                                    self.functions_used,\n                                    self.suffixes_used)\n" + _FINALLY,
           "    class _Scratch(object):\n        def __init__(self, parser):\n            self.parser = parser\n\n"
           "        def __enter__(self):\n            return self.parser\n\n"
           "        def __exit__(self, exc_type, exc_value, traceback):\n            self.parser.reset_storage()\n            return False\n\n"
           "    def raw_parse(self, expression):\n        with MathParser._Scratch(self):\n            BracketValidator.validate(expression)\n"
           "            tree = self.grammar.parseString(expression)[0]\n"
           "            return MathExpression(expression, tree, self.variables_used, self.functions_used, self.suffixes_used)"),
    Benign('metadata-template-copied-per-evaluation', EXPR, [
        ("        self.tree = tree\n", "        self.tree = tree\n        self.metadata_template = {'max_array_dim_used': 0}\n"),
        ("        metadata_dict = {'max_array_dim_used': 0}\n", "        metadata_dict = dict(self.metadata_template)\n"),
    ], None),
    Benign('caller-resets-for-every-exception', EXPR, [
        (_RAW_OLD + _FINALLY, "        BracketValidator.validate(expression)\n        tree = self.grammar.parseString(expression)[0]\n"
         "        used = (self.variables_used, self.functions_used, self.suffixes_used)\n        self.reset_storage()\n"
         "        return MathExpression(expression, tree, *used)"),
        ("        except ParseException:\n            msg = \"Invalid Input: Could not parse '{}' as a formula\"\n            raise UnableToParse(msg.format(expression))\n",
         "        except ParseException:\n            self.reset_storage()\n            msg = \"Invalid Input: Could not parse '{}' as a formula\"\n"
         "            raise UnableToParse(msg.format(expression))\n        except BaseException:\n            self.reset_storage()\n            raise\n"),
    ], None),
    Benign('exponent-sign-rebuilt-from-the-same-pieces', EXPR, "Optional(CaselessLiteral(\"E\") + Optional(plus_minus) + number_part)",
           "Optional(CaselessLiteral(\"E\") + Optional(plus | minus) + number_part)"),
    Benign('cache-store-removed', EXPR, "        self.cache[cache_key] = parsed\n        return parsed", "        return parsed"),
    Benign('grammar-signs-by-tuple-assignment', EXPR, "        minus = Literal(\"-\") | emdash\n", "        minus, dash = (Literal(\"-\") | emdash, emdash)\n"),
    Benign('scratch-sets-handed-over-through-a-tuple', EXPR, [
        (_RAW_OLD + _FINALLY, "        try:\n            BracketValidator.validate(expression)\n            tree = self.grammar.parseString(expression)[0]\n"
         "        finally:\n            collected = (self.variables_used, self.functions_used, self.suffixes_used)\n            self.reset_storage()\n"
         "            variables_used, functions_used, suffixes_used = collected\n"
         "        return MathExpression(expression, tree, variables_used, functions_used, suffixes_used)"),
    ], None),
    Benign('raw-parse-behind-a-helper', EXPR, [
        ("        try:\n            parsed = self.raw_parse(expression_no_whitespace)\n        except ParseException:\n"
         "            msg = \"Invalid Input: Could not parse '{}' as a formula\"\n            raise UnableToParse(msg.format(expression))\n",
         "        parsed = self._parse_uncached(expression, expression_no_whitespace)\n"),
        ("    def parse(self, expression):", "    def _parse_uncached(self, expression, stripped):\n        try:\n            return self.raw_parse(stripped)\n"
         "        except ParseException:\n            msg = \"Invalid Input: Could not parse '{}' as a formula\"\n            raise UnableToParse(msg.format(expression))\n\n"
         "    def parse(self, expression):"),
    ], None),
    Benign('scratch-sets-declared-in-a-class-tuple', EXPR, [
        ("    def reset_storage(self):\n        self.variables_used = set()\n        self.functions_used = set()\n        self.suffixes_used = set()\n",
         "    _usage_fields = ('variables_used', 'functions_used', 'suffixes_used')\n\n    def reset_storage(self):\n"
         "        for field in self._usage_fields:\n            setattr(self, field, set())\n"),
        ("            parsed = MathExpression(expression,\n                                    tree,\n                                    self.variables_used,\n"
         "                                    self.functions_used,\n                                    self.suffixes_used)\n",
         "            parsed = MathExpression(expression, tree, *tuple(getattr(self, field) for field in self._usage_fields))\n"),
    ], None),
]
