"""E7b AI-INT and E7d ENUM: small abstract interpreters over terms extracted from /repo's AST.

Nothing here runs numpy or the analysed library.  Python expressions are first turned into
*terms* (nested tuples with resolved callee names, `self.config['k']` as configuration
symbols, locals substituted forward along each path of a small symbolic executor); the terms
are then evaluated in domains defined in this file:

  Rat        exact multivariate rational functions over configuration symbols (closed forms,
             substitution of breakpoints, derivatives)
  Interval   numeric intervals with open/closed ends; symbol ranges come from the schema
  Mono       sign / monotonicity of a term with respect to one designated variable
  Mag        arrays as (symbolic shape, entrywise magnitude bound, attainable?) with a model
             table for the numpy/random primitives used by the samplers (range-exact flags)
  Alg        free algebra of matrix words with the involutions T (transpose) and conj and the
             projection D = diag(diag(.))
  Enum       concrete evaluation of branch conditions over finite option enums
  witness    exact rational evaluation of a term at finitely many points of the symbols'
             schema ranges: the only source of *definite* counterexamples (VIOLATION needs a
             witness or an exact abstract result; a failed proof alone is UNDECIDED)
"""
import ast
import itertools
from fractions import Fraction

from .index import AnalysisError, unparse, short, walk_own
from . import nf

INF = float('inf')


class Unsupported(AnalysisError):
    """A construct outside the supported subset of a domain (-> UNDECIDED, never a violation)."""


class BudgetExhausted(AnalysisError):
    """The global step / wall-clock budget of the abstract interpreters is used up (-> UNDECIDED, exit 2).
    Deliberately *not* a subclass of Unsupported: it must not be swallowed by `except Unsupported` fallbacks."""


class _Budget(object):
    """One budget per check: every loop of this module (polynomial products, interval products, term building,
    path enumeration, witness grids, domain evaluators) ticks it, so no analysis can run away."""
    MAX_STEPS = 30 * 1000 * 1000
    MAX_SECONDS = 90.0

    def __init__(self):
        self.reset()

    def reset(self, max_steps=None, max_seconds=None):
        import time
        self.steps = 0
        self.limit = max_steps or self.MAX_STEPS
        self.deadline = time.time() + (max_seconds or self.MAX_SECONDS)
        self.next_clock = 20000

    def tick(self, n=1):
        self.steps += n
        if self.steps > self.limit:
            raise BudgetExhausted('analysis budget exhausted (%d abstract-interpretation steps)' % self.limit)
        if self.steps >= self.next_clock:
            import time
            self.next_clock = self.steps + 20000
            if time.time() > self.deadline:
                raise BudgetExhausted('analysis budget exhausted (wall-clock limit of the abstract interpreters)')


BUDGET = _Budget()


def reset_budget(max_steps=None, max_seconds=None):
    BUDGET.reset(max_steps, max_seconds)


# =============================================================================== Poly / Rat
def _mono_mul(a, b):
    d = dict(a)
    for s, e in b:
        d[s] = d.get(s, 0) + e
    return tuple(sorted((s, e) for s, e in d.items() if e))


class Poly(object):
    """Multivariate polynomial with Fraction coefficients: {monomial: coeff}, monomial = ((sym, exp), ...)."""
    __slots__ = ('t',)

    def __init__(self, terms=None):
        self.t = {m: c for m, c in (terms or {}).items() if c != 0}

    @staticmethod
    def const(c):
        return Poly({(): Fraction(c)})

    @staticmethod
    def sym(name):
        return Poly({((name, 1),): Fraction(1)})

    def __add__(self, o):
        d = dict(self.t)
        BUDGET.tick(len(o.t) + 1)
        for m, c in o.t.items():
            d[m] = d.get(m, 0) + c
        return Poly(d)

    def __neg__(self):
        return Poly({m: -c for m, c in self.t.items()})

    def __sub__(self, o):
        return self + (-o)

    def __mul__(self, o):
        d = {}
        for m1, c1 in self.t.items():
            BUDGET.tick(len(o.t) + 1)
            for m2, c2 in o.t.items():
                m = _mono_mul(m1, m2)
                d[m] = d.get(m, 0) + c1 * c2
        return Poly(d)

    def is_zero(self):
        return not self.t

    def is_const(self):
        return all(m == () for m in self.t)

    def const_value(self):
        return self.t.get((), Fraction(0))

    def __eq__(self, o):
        return isinstance(o, Poly) and self.t == o.t

    def __hash__(self):
        return hash(tuple(sorted(self.t.items())))

    def symbols(self):
        return {s for m in self.t for s, _ in m}

    def degree_in(self, sym):
        return max([dict(m).get(sym, 0) for m in self.t] or [0])

    def coeff_of(self, sym, k):
        """Polynomial coefficient of sym**k."""
        d = {}
        for m, c in self.t.items():
            dm = dict(m)
            if dm.get(sym, 0) == k:
                dm.pop(sym, None)
                d[tuple(sorted(dm.items()))] = c
        return Poly(d)

    def deriv(self, sym):
        d = {}
        for m, c in self.t.items():
            dm = dict(m)
            e = dm.get(sym, 0)
            if not e:
                continue
            dm[sym] = e - 1
            mm = tuple(sorted((s, x) for s, x in dm.items() if x))
            d[mm] = d.get(mm, 0) + c * e
        return Poly(d)

    def monomial_gcd(self):
        ms = list(self.t)
        if not ms:
            return ()
        g = dict(ms[0])
        for m in ms[1:]:
            dm = dict(m)
            g = {s: min(e, dm.get(s, 0)) for s, e in g.items() if dm.get(s, 0)}
        return tuple(sorted(g.items()))

    def div_monomial(self, g):
        dg = dict(g)
        out = {}
        for m, c in self.t.items():
            dm = dict(m)
            for s, e in dg.items():
                dm[s] -= e
            out[tuple(sorted((s, e) for s, e in dm.items() if e))] = c
        return Poly(out)

    def text(self):
        if not self.t:
            return '0'
        parts = []
        for m, c in sorted(self.t.items(), key=lambda mc: (-sum(e for _, e in mc[0]), mc[0])):
            body = '*'.join(s if e == 1 else '%s**%d' % (s, e) for s, e in m)
            if not body:
                parts.append(str(c))
            elif c == 1:
                parts.append(body)
            elif c == -1:
                parts.append('-' + body)
            else:
                parts.append('%s*%s' % (c, body))
        return ' + '.join(parts).replace('+ -', '- ')


class Rat(object):
    """Quotient of two polynomials.  Equality is decided by cross-multiplication (exact)."""
    __slots__ = ('n', 'd')

    def __init__(self, n, d=None):
        d = d if d is not None else Poly.const(1)
        if d.is_zero():
            raise Unsupported('division by the zero polynomial')
        if d.is_const():
            c = d.const_value()
            n, d = n * Poly.const(1 / c), Poly.const(1)
        else:
            gn, gd = n.monomial_gcd(), d.monomial_gcd()
            g = tuple(sorted((s, min(e, dict(gd).get(s, 0))) for s, e in gn if dict(gd).get(s, 0)))
            if g and not n.is_zero():
                n, d = n.div_monomial(g), d.div_monomial(g)
            if n.is_zero():
                d = Poly.const(1)
            elif len(d.t) >= 1:
                # cancel a constant multiple: n == c*d
                (m0, c0), = list(d.t.items())[:1]
                if m0 in n.t:
                    ratio = n.t[m0] / c0
                    if (d * Poly.const(ratio)) == n:
                        n, d = Poly.const(ratio), Poly.const(1)
            if d.is_const() and not (d.const_value() == 1):
                n, d = n * Poly.const(1 / d.const_value()), Poly.const(1)
        self.n, self.d = n, d

    @staticmethod
    def const(c):
        return Rat(Poly.const(c))

    @staticmethod
    def sym(name):
        return Rat(Poly.sym(name))

    def __add__(self, o):
        if self.d == o.d:
            return Rat(self.n + o.n, self.d)
        return Rat(self.n * o.d + o.n * self.d, self.d * o.d)

    def __neg__(self):
        return Rat(-self.n, self.d)

    def __sub__(self, o):
        return self + (-o)

    def __mul__(self, o):
        return Rat(self.n * o.n, self.d * o.d)

    def __truediv__(self, o):
        if o.n.is_zero():
            raise Unsupported('division by zero')
        return Rat(self.n * o.d, self.d * o.n)

    def ipow(self, k):
        out = Rat.const(1)
        base = self if k >= 0 else Rat.const(1) / self
        if abs(k) > 64:
            raise Unsupported('power %d is too large for the closed-form domain' % k)
        for _ in range(abs(k)):
            out = out * base
        return out

    def __eq__(self, o):
        return isinstance(o, Rat) and (self.n * o.d - o.n * self.d).is_zero()

    def __hash__(self):
        return hash((self.n, self.d))

    def is_zero(self):
        return self.n.is_zero()

    def is_const(self):
        return self.n.is_const() and self.d.is_const()

    def const_value(self):
        return self.n.const_value() / self.d.const_value()

    def symbols(self):
        return self.n.symbols() | self.d.symbols()

    def subs(self, sym, val):
        def sub_poly(p):
            out = Rat.const(0)
            for m, c in p.t.items():
                BUDGET.tick()
                term = Rat.const(c)
                for s, e in m:
                    term = term * ((val if s == sym else Rat.sym(s)).ipow(e))
                out = out + term
            return out
        return sub_poly(self.n) / sub_poly(self.d)

    def deriv(self, sym):
        return Rat(self.n.deriv(sym) * self.d - self.n * self.d.deriv(sym), self.d * self.d)

    def linear_in(self, sym):
        """(a, b) with self == a*sym + b and a, b free of sym; None if not of that form."""
        if sym in self.d.symbols() or self.n.degree_in(sym) > 1:
            return None
        return Rat(self.n.coeff_of(sym, 1), self.d), Rat(self.n.coeff_of(sym, 0), self.d)

    def text(self):
        if self.d.is_const():
            return self.n.text()
        n, d = self.n.text(), self.d.text()
        return '(%s)/(%s)' % (n, d) if len(self.d.t) > 1 or len(self.n.t) > 1 else '%s/%s' % (n, d)

    __repr__ = text


# ================================================================================ Interval
class Interval(object):
    """Numeric interval with open/closed ends (ends are Fractions or +-inf)."""
    __slots__ = ('lo', 'hi', 'lo_open', 'hi_open')

    def __init__(self, lo, hi, lo_open=False, hi_open=False):
        self.lo, self.hi = lo, hi
        self.lo_open = lo_open or lo == -INF
        self.hi_open = hi_open or hi == INF

    @staticmethod
    def point(c):
        return Interval(Fraction(c), Fraction(c))

    TOP = None

    def __add__(self, o):
        return Interval(self.lo + o.lo, self.hi + o.hi, self.lo_open or o.lo_open, self.hi_open or o.hi_open)

    def __neg__(self):
        return Interval(-self.hi, -self.lo, self.hi_open, self.lo_open)

    def __sub__(self, o):
        return self + (-o)

    def __mul__(self, o):
        cands = []
        BUDGET.tick()
        for a, ao in ((self.lo, self.lo_open), (self.hi, self.hi_open)):
            for b, bo in ((o.lo, o.lo_open), (o.hi, o.hi_open)):
                if (a == 0 and abs(b) == INF) or (b == 0 and abs(a) == INF):
                    v, op = 0, False      # 0 * inf: the finite factor is exactly 0 only if closed there
                    op = (ao if a == 0 else bo)
                else:
                    v = a * b
                    # a product end is open if a contributing end is open, unless the other factor is a closed 0
                    op = (ao and not (b == 0 and not bo)) or (bo and not (a == 0 and not ao))
                cands.append((v, op))
        lo = min(v for v, _ in cands)
        hi = max(v for v, _ in cands)
        lo_open = all(op for v, op in cands if v == lo)
        hi_open = all(op for v, op in cands if v == hi)
        return Interval(lo, hi, lo_open, hi_open)

    def contains_zero(self):
        if self.lo > 0 or self.hi < 0:
            return False
        if self.lo == 0 and self.lo_open:
            return False
        if self.hi == 0 and self.hi_open:
            return False
        return True

    def inverse(self):
        if self.contains_zero():
            raise Unsupported('interval division by an interval containing 0')

        def inv(x):
            return 0 if abs(x) == INF else (INF if x == 0 else 1 / Fraction(x))
        if self.lo >= 0:
            return Interval(inv(self.hi), inv(self.lo) if self.lo != 0 else INF, self.hi_open, self.lo_open)
        return Interval(-INF if self.hi == 0 else inv(self.hi), inv(self.lo), self.hi_open, self.lo_open)

    def __truediv__(self, o):
        return self * o.inverse()

    def ipow(self, k):
        if k == 0:
            return Interval.point(1)
        if k > 64:
            raise Unsupported('interval power %d is too large' % k)
        out = self
        for _ in range(k - 1):
            out = out * self
        if k % 2 == 0 and out.lo < 0:      # even power: tighten to >= 0
            zero_inside = self.contains_zero()
            out = Interval(0, out.hi, not zero_inside, out.hi_open)
        return out

    def join(self, o):
        lo = min(self.lo, o.lo)
        hi = max(self.hi, o.hi)
        lo_open = all(x.lo_open for x in (self, o) if x.lo == lo)
        hi_open = all(x.hi_open for x in (self, o) if x.hi == hi)
        return Interval(lo, hi, lo_open, hi_open)

    def meet(self, o):
        lo, lo_open = max((self.lo, self.lo_open), (o.lo, o.lo_open))
        hi, hi_open = min((self.hi, not self.hi_open), (o.hi, not o.hi_open))
        return Interval(lo, hi, lo_open, not hi_open)

    def is_empty(self):
        return self.lo > self.hi or (self.lo == self.hi and (self.lo_open or self.hi_open))

    def within(self, o):
        lo_ok = self.lo > o.lo or (self.lo == o.lo and (self.lo_open or not o.lo_open))
        hi_ok = self.hi < o.hi or (self.hi == o.hi and (self.hi_open or not o.hi_open))
        return lo_ok and hi_ok

    # sign facts
    def nonneg(self):
        return self.lo >= 0

    def nonpos(self):
        return self.hi <= 0

    def positive(self):
        return self.lo > 0 or (self.lo == 0 and self.lo_open)

    def negative(self):
        return self.hi < 0 or (self.hi == 0 and self.hi_open)

    def is_point(self):
        return self.lo == self.hi and not self.lo_open

    def text(self):
        def f(x):
            return 'inf' if x == INF else '-inf' if x == -INF else str(x)
        return '%s%s, %s%s' % ('(' if self.lo_open else '[', f(self.lo), f(self.hi), ')' if self.hi_open else ']')

    __repr__ = text


Interval.TOP = Interval(-INF, INF)


class SymFact(object):
    """What the schema says about one configuration symbol."""

    def __init__(self, name, interval=None, integer=False, enum=None, samples=None, source=''):
        self.name = name
        self.interval = interval or Interval.TOP
        self.integer = integer
        self.enum = enum            # finite list of admitted python values, or None
        self.samples = samples      # witness grid (exact values inside the range)
        self.source = source

    def grid(self):
        if self.samples is not None:
            return list(self.samples)
        if self.enum is not None:
            return list(self.enum)
        iv = self.interval
        lo = iv.lo if iv.lo != -INF else Fraction(-3)
        hi = iv.hi if iv.hi != INF else lo + 6
        if self.integer:
            lo_i = int(lo) + (1 if iv.lo_open and lo == int(lo) else 0)
            return [Fraction(x) for x in range(lo_i, min(int(hi), lo_i + 5) + 1)]
        pts = [lo + (hi - lo) * Fraction(k, 10) for k in (0, 1, 2, 5, 8, 10)]
        return [p for p in pts if Interval.point(p).within(iv)]


class Facts(object):
    """Ranges of symbols plus relational facts (Rat expressions known to be >= 0 or > 0)."""

    def __init__(self, syms=None):
        self.syms = dict(syms or {})
        self.nonneg = []        # [(Rat, strict)]

    def copy(self):
        f = Facts(self.syms)
        f.nonneg = list(self.nonneg)
        return f

    def add(self, fact):
        self.syms[fact.name] = fact
        return self

    def restrict(self, name, interval):
        old = self.syms.get(name) or SymFact(name)
        new = SymFact(name, old.interval.meet(interval), old.integer, old.enum, old.samples, old.source)
        self.syms[name] = new
        return self

    def assume_nonneg(self, rat, strict=False):
        self.nonneg.append((rat, strict))
        return self

    def interval_of_sym(self, s):
        f = self.syms.get(s)
        return f.interval if f is not None else Interval.TOP

    def interval_of_poly(self, p):
        out = Interval.point(0)
        for m, c in p.t.items():
            term = Interval.point(c)
            for s, e in m:
                term = term * self.interval_of_sym(s).ipow(e)
            out = out + term
        return out

    def interval_of(self, rat):
        n = self.interval_of_poly(rat.n)
        if rat.d.is_const():
            return n
        return n / self.interval_of_poly(rat.d)

    def _interval_sign(self, rat):
        try:
            iv = self.interval_of(rat)
        except Unsupported:
            return ''
        if iv.positive():
            return 'pos'
        if iv.negative():
            return 'neg'
        if iv.nonneg():
            return 'nonneg'
        if iv.nonpos():
            return 'nonpos'
        return ''

    def sign(self, rat):
        """One of 'zero','pos','neg','nonneg','nonpos' when *proved*; '' if nothing is."""
        if rat.is_zero():
            return 'zero'
        s = self._interval_sign(rat)
        if s:
            return s
        # relational facts: rat == q * fact with q of known sign (by intervals only: no recursion)
        for fact, strict in self.nonneg:
            if fact.is_zero():
                continue
            try:
                q = rat / fact
            except Unsupported:
                continue
            if q.is_const():
                qs = 'pos' if q.const_value() > 0 else 'neg'
            else:
                qs = self._interval_sign(q)
            if qs in ('pos', 'nonneg'):
                return 'pos' if (strict and qs == 'pos') else 'nonneg'
            if qs in ('neg', 'nonpos'):
                return 'neg' if (strict and qs == 'neg') else 'nonpos'
        # rat >= fact >= 0  (rat - fact of known non-negative sign), and the mirror image
        for fact, strict in self.nonneg:
            ds = self._interval_sign(rat - fact) or ('zero' if (rat - fact).is_zero() else '')
            if ds in ('pos', 'nonneg', 'zero'):
                return 'pos' if (strict or ds == 'pos') else 'nonneg'
            ds = self._interval_sign(rat + fact) or ('zero' if (rat + fact).is_zero() else '')
            if ds in ('neg', 'nonpos', 'zero'):
                return 'neg' if (strict or ds == 'neg') else 'nonpos'
        return ''

    def proves_ge(self, a, b, strict=False):
        s = self.sign(a - b)
        return s == 'pos' or (not strict and s in ('zero', 'nonneg'))

    def proves_le(self, a, b, strict=False):
        return self.proves_ge(b, a, strict)

    def witness_grid(self, names, limit=4000):
        """Cartesian grid of exact values for the named symbols (inside their ranges)."""
        axes = []
        for n in names:
            f = self.syms.get(n) or SymFact(n)
            axes.append(f.grid())
        total = 1
        for a in axes:
            total *= max(1, len(a))
        if total > limit:
            axes = [a[:max(2, int(limit ** (1.0 / max(1, len(axes)))))] for a in axes]
        for combo in itertools.product(*axes):
            BUDGET.tick(5)
            yield dict(zip(names, combo))


# =================================================================================== Terms
# A term is a nested tuple.  Leaves: ('num', Fraction) ('imag', Fraction) ('str', s) ('none',)
# ('bool', b) ('cfg', key) ('param', name) ('self',) ('sym', name) ('ext', dotted) ('opaque', text).
# Inner nodes: ('add'|'sub'|'mul'|'div'|'pow'|'mod'|'floordiv'|'matmul', a, b) ('neg', a) ('not', a)
# ('cmp', op, a, b) with op in < <= == != in notin is isnot; ('and', (..)) ('or', (..));
# ('call', dotted, args, kwargs) ('meth', receiver, name, args, kwargs) ('attr', base, name)
# ('index', base, i) ('tuple', items) ('list', items) ('ifexp', t, a, b) ('closure', id).
CMP_NAMES = {ast.Lt: '<', ast.LtE: '<=', ast.Gt: '>', ast.GtE: '>=', ast.Eq: '==', ast.NotEq: '!=',
             ast.In: 'in', ast.NotIn: 'notin', ast.Is: 'is', ast.IsNot: 'isnot'}
NEG_CMP = {'<': '>=', '<=': '>', '>': '<=', '>=': '<', '==': '!=', '!=': '==', 'in': 'notin', 'notin': 'in',
           'is': 'isnot', 'isnot': 'is'}
BIN_NAMES = {ast.Add: 'add', ast.Sub: 'sub', ast.Mult: 'mul', ast.Div: 'div', ast.Pow: 'pow', ast.Mod: 'mod',
             ast.FloorDiv: 'floordiv', ast.MatMult: 'matmul'}


def num(c):
    return ('num', Fraction(c))


def t_not(t):
    if t[0] == 'not':
        return t[1]
    if t[0] == 'cmp':
        op = NEG_CMP[t[1]]
        if op == '>':
            return ('cmp', '<', t[3], t[2])
        if op == '>=':
            return ('cmp', '<=', t[3], t[2])
        return ('cmp', op, t[2], t[3])
    if t[0] == 'and':
        return ('or', tuple(t_not(x) for x in t[1]))
    if t[0] == 'or':
        return ('and', tuple(t_not(x) for x in t[1]))
    if t[0] == 'bool':
        return ('bool', not t[1])
    return ('not', t)


def t_conjuncts(t):
    if t[0] == 'and':
        out = []
        for x in t[1]:
            out.extend(t_conjuncts(x))
        return out
    return [t]


def subterms(t):
    BUDGET.tick()
    yield t
    if isinstance(t, tuple):
        for x in t[1:]:
            if isinstance(x, tuple) and x and isinstance(x[0], str):
                for y in subterms(x):
                    yield y
            elif isinstance(x, tuple):
                for z in x:
                    if isinstance(z, tuple) and z and isinstance(z[0], str):
                        for y in subterms(z):
                            yield y
                    elif isinstance(z, tuple) and len(z) == 2 and isinstance(z[1], tuple):   # kwargs pair
                        for y in subterms(z[1]):
                            yield y


def mentions(t, leaf):
    return any(s == leaf for s in subterms(t))


def show(t):
    """Readable rendering of a term (for messages only)."""
    k = t[0]
    if k == 'num':
        v = t[1]
        return str(v.numerator) if v.denominator == 1 else str(float(v)) if v.denominator in (2, 4, 5, 10, 20, 100, 1000) else str(v)
    if k == 'imag':
        return '%sj' % show(('num', t[1]))
    if k == 'str':
        return repr(t[1])
    if k == 'none':
        return 'None'
    if k == 'bool':
        return str(t[1])
    if k == 'cfg':
        return "config[%r]" % t[1]
    if k in ('param', 'sym', 'ext'):
        return t[1]
    if k == 'self':
        return 'self'
    if k == 'opaque':
        return '<%s>' % t[1]
    if k in BIN_NAMES.values():
        sym = {'add': '+', 'sub': '-', 'mul': '*', 'div': '/', 'pow': '**', 'mod': '%', 'floordiv': '//', 'matmul': '@'}[k]
        return '(%s %s %s)' % (show(t[1]), sym, show(t[2]))
    if k == 'neg':
        return '-%s' % show(t[1])
    if k == 'not':
        return 'not %s' % show(t[1])
    if k == 'cmp':
        return '%s %s %s' % (show(t[2]), {'notin': 'not in', 'isnot': 'is not'}.get(t[1], t[1]), show(t[3]))
    if k in ('and', 'or'):
        return '(' + (' %s ' % k).join(show(x) for x in t[1]) + ')'
    if k == 'call':
        return '%s(%s)' % (t[1].split('.')[-1] if t[1].startswith('numpy') else t[1],
                           ', '.join([show(a) for a in t[2]] + ['%s=%s' % (n, show(v)) for n, v in t[3]]))
    if k == 'meth':
        return '%s.%s(%s)' % (show(t[1]), t[2], ', '.join([show(a) for a in t[3]] + ['%s=%s' % (n, show(v)) for n, v in t[4]]))
    if k == 'attr':
        return '%s.%s' % (show(t[1]), t[2])
    if k == 'index':
        return '%s[%s]' % (show(t[1]), show(t[2]))
    if k in ('tuple', 'list'):
        return ('(%s)' if k == 'tuple' else '[%s]') % ', '.join(show(x) for x in t[1])
    if k == 'ifexp':
        return '(%s if %s else %s)' % (show(t[2]), show(t[1]), show(t[3]))
    return str(t)


LAMBDAS = []      # (Lambda node, env, store, builder) of every ('lambda', i, params) term built in this process


_KNOWN = []


def _is_new_class(ci):
    """Object terms are interpreted only for classes that are not part of the reviewed inventory (sa/known_functions.txt),
    i.e. small helper classes introduced by a restructuring; instances of reviewed classes keep their own rules."""
    if not _KNOWN:
        from . import normalize
        _KNOWN.append(normalize.load_known() or set())
    known = _KNOWN[0]
    return not any(q.startswith(ci.qualname + '.') for q in known)


def _frozen_fields(idx, ci):
    """{field: term builder info} of the attributes that only __init__ assigns (once, at top level, no other method or
    augmented store touches them): reading such a field of `C(args)` is reading the constructor's expression."""
    cached = getattr(ci, '_sa_frozen', None)
    if cached is not None:
        return cached
    init = ci.methods.get('__init__')
    out = {}
    if init is not None and not (init.node.args.vararg or init.node.args.kwarg) and init.params:
        me = init.params[0]
        counts = {}
        for name, f in ci.methods.items():
            sname = f.params[0] if f.params and not f.is_static else None
            for n in ast.walk(f.node):
                if isinstance(n, ast.Attribute) and isinstance(n.ctx, (ast.Store, ast.Del)) and isinstance(n.value, ast.Name) \
                        and n.value.id == sname:
                    counts[n.attr] = counts.get(n.attr, 0) + (1 if name == '__init__' else 100)
        # a store to an attribute of that name anywhere else in the module (e.g. a method inlined into its caller) unfreezes it
        for n in ast.walk(ci.module.tree):
            if isinstance(n, ast.Attribute) and isinstance(n.ctx, (ast.Store, ast.Del)) and n.attr in counts:
                inside_init = any(n is x for x in ast.walk(init.node))
                if not inside_init and not any(any(n is x for x in ast.walk(f.node)) for f in ci.methods.values()):
                    counts[n.attr] += 100
        for st in init.node.body:
            if isinstance(st, ast.Assign) and len(st.targets) == 1 and isinstance(st.targets[0], ast.Attribute) \
                    and isinstance(st.targets[0].value, ast.Name) and st.targets[0].value.id == me and counts.get(st.targets[0].attr) == 1:
                out[st.targets[0].attr] = st.value
    ci._sa_frozen = (init, out)
    return ci._sa_frozen


def object_field(idx, obj, attr):
    """Term of `obj.attr` for obj = ('call', <package class>, args, kwargs), when attr is a frozen field; else None."""
    ci = idx.classes.get(obj[1]) if obj[0] == 'call' else None
    if ci is None or not obj[1].startswith('mitxgraders.') or not _is_new_class(ci):
        return None
    init, fields = _frozen_fields(idx, ci)
    if init is None or attr not in fields:
        return None
    params = init.params[1:]
    if len(obj[2]) > len(params):
        return None
    env = dict(zip(params, obj[2]))
    env.update({k: v for k, v in obj[3]})
    if set(params) - set(env):
        return None
    # earlier frozen fields may be read through self.<field> in later initialisers
    return TermBuilder(idx, init, self_name='\0none').build(fields[attr], dict(env, **{init.params[0]: obj}))


def object_method(idx, obj, name, args, kwargs, depth=0):
    """Value of `obj.name(args)` for a method that only reads its arguments and frozen fields and returns on every path;
    several paths are joined by conditional expressions.  None when the method is not of that kind."""
    ci = idx.classes.get(obj[1]) if obj[0] == 'call' else None
    if ci is None or not obj[1].startswith('mitxgraders.') or kwargs or depth > 3 or not _is_new_class(ci):
        return None
    callee = idx.lookup(ci, name)
    if callee is None or callee.is_static or callee.node.args.vararg or callee.node.args.kwarg or len(callee.params) != len(args) + 1:
        return None
    if any(isinstance(n, ast.Attribute) and isinstance(n.ctx, (ast.Store, ast.Del)) for n in ast.walk(callee.node)) or \
            any(isinstance(n, (ast.For, ast.While, ast.Try, ast.With, ast.Global, ast.Nonlocal, ast.Yield)) for n in ast.walk(callee.node)):
        return None
    env = dict(zip(callee.params[1:], args))
    env[callee.params[0]] = obj
    try:
        paths = sym_exec(idx, callee, env=env, builder=TermBuilder(idx, callee, self_name='\0none'))
    except Unsupported:
        return None
    if not paths or any(p.kind != 'ret' or p.effects or p.store for p in paths):
        return None
    val = paths[-1].value
    for p in reversed(paths[:-1]):
        cond = p.conds[0] if len(p.conds) == 1 else ('and', tuple(p.conds))
        val = ('ifexp', cond, p.value, val)
    return val


class TermBuilder(object):
    """AST expression -> term, with forward-substituted locals (`env`) and a store for self.config / self.<attr>."""

    def __init__(self, idx, fi, self_name=None):
        self.idx = idx
        self.fi = fi
        self.module = fi.module
        owner = fi
        while owner.outer is not None:
            owner = owner.outer
        self.self_name = self_name if self_name is not None else (
            owner.params[0] if owner.cls is not None and not owner.is_static and owner.params else None)

    def build(self, expr, env, store=None):
        return self._b(nf.canon(expr), env, store or {})

    def _b(self, e, env, store):
        BUDGET.tick()
        b = lambda x: self._b(x, env, store)   # noqa: E731
        if isinstance(e, ast.Constant):
            v = e.value
            if isinstance(v, bool):
                return ('bool', v)
            if isinstance(v, int):
                return ('num', Fraction(v))
            if isinstance(v, float):
                return ('num', Fraction(repr(v))) if v == v and abs(v) != INF else ('opaque', repr(v))
            if isinstance(v, complex):
                if v.real == 0:
                    return ('imag', Fraction(repr(v.imag)))
                return ('add', ('num', Fraction(repr(v.real))), ('imag', Fraction(repr(v.imag))))
            if isinstance(v, str):
                return ('str', v)
            if v is None:
                return ('none',)
            return ('opaque', repr(v))
        if isinstance(e, ast.Name):
            if e.id in env:
                return env[e.id]
            if e.id == self.self_name:
                return ('self',)
            if self._is_local(e.id):
                return ('param', e.id)
            kind, obj = self.idx.resolve_name(self.module, e.id)
            if kind in ('builtin', 'external'):
                return ('ext', obj)
            if kind in ('func', 'class'):
                return ('ext', obj.qualname)
            if kind == 'module':
                return ('ext', obj.name)
            if kind == 'value':
                mod, nm = obj
                vals = mod.assigns.get(nm, [])
                if len(vals) == 1 and isinstance(vals[0], ast.Constant) and isinstance(vals[0].value, (int, float, str, bool, type(None))):
                    return self._b(vals[0], {}, {})              # module-level constant
                if len(vals) == 1 and isinstance(vals[0], ast.UnaryOp) and isinstance(vals[0].operand, ast.Constant):
                    return self._b(nf.canon(vals[0]), {}, {})
                if len(vals) == 1 and isinstance(vals[0], (ast.Tuple, ast.List)) and all(
                        isinstance(n, (ast.Tuple, ast.List, ast.Constant, ast.Load, ast.UnaryOp, ast.USub)) for n in ast.walk(vals[0])):
                    return self._b(vals[0], {}, {})                  # module-level literal table
                return ('ext', mod.name + '.' + nm)
            return ('ext', self.module.name + '.' + e.id)
        if isinstance(e, ast.Attribute):
            base = b(e.value)
            if base[0] == 'ext':
                return ('ext', base[1] + '.' + e.attr)
            if base[0] == 'call' and base[1] in self.idx.classes:
                fld = object_field(self.idx, base, e.attr)
                if fld is not None:
                    return fld
            key = ('attr', base, e.attr)
            if key in store:
                return store[key]
            if base == ('self',) and getattr(self, 'self_cls', None) is not None:
                _holder, node_ = self.idx.lookup_attr(self.self_cls, e.attr)     # class-level literal of the concrete class
                if isinstance(node_, (ast.Tuple, ast.List, ast.Constant)):
                    return self._b(node_, {}, {})
            return key
        if isinstance(e, ast.Subscript):
            base = b(e.value)
            idx_t = b(e.slice) if not isinstance(e.slice, ast.Slice) else ('opaque', 'slice:' + unparse(e.slice))
            if base[0] in ('tuple', 'list') and idx_t[0] == 'num' and idx_t[1].denominator == 1 and -len(base[1]) <= idx_t[1] < len(base[1]):
                return base[1][int(idx_t[1])]
            if base == ('attr', ('self',), 'config') and idx_t[0] == 'str':
                key = ('cfg', idx_t[1])
                return store.get(key, key)
            key = ('index', base, idx_t)
            return store.get(key, key)
        if isinstance(e, ast.BinOp) and type(e.op) in BIN_NAMES:
            return (BIN_NAMES[type(e.op)], b(e.left), b(e.right))
        if isinstance(e, ast.UnaryOp):
            if isinstance(e.op, ast.USub):
                return ('neg', b(e.operand))
            if isinstance(e.op, ast.UAdd):
                return b(e.operand)
            if isinstance(e.op, ast.Not):
                return t_not(b(e.operand))
        if isinstance(e, ast.Compare):
            parts = []
            left = e.left
            for op, right in zip(e.ops, e.comparators):
                name = CMP_NAMES[type(op)]
                l, r = b(left), b(right)
                if name == '>':
                    name, l, r = '<', r, l
                elif name == '>=':
                    name, l, r = '<=', r, l
                parts.append(('cmp', name, l, r))
                left = right
            return parts[0] if len(parts) == 1 else ('and', tuple(parts))
        if isinstance(e, ast.BoolOp):
            vals = []
            for v in e.values:
                t = b(v)
                kind = 'and' if isinstance(e.op, ast.And) else 'or'
                vals.extend(t[1] if t[0] == kind else [t])
            return ('and' if isinstance(e.op, ast.And) else 'or', tuple(vals))
        if isinstance(e, ast.Call):
            if any(k.arg is None for k in e.keywords):
                return ('opaque', 'call:' + short(e, 60))
            arglist = []
            for a in e.args:
                if isinstance(a, ast.Starred):
                    st = b(a.value)
                    if st[0] not in ('tuple', 'list'):
                        return ('opaque', 'call:' + short(e, 60))
                    arglist.extend(st[1])            # f(*(a, b, c)) == f(a, b, c)
                else:
                    arglist.append(b(a))
            args = tuple(arglist)
            kwargs = tuple(sorted((k.arg, b(k.value)) for k in e.keywords))
            f = e.func
            if isinstance(f, ast.Attribute):
                recv = b(f.value)
                if recv[0] == 'ext':
                    return ('call', recv[1] + '.' + f.attr, args, kwargs)
                if recv[0] == 'call' and recv[1] in self.idx.classes:
                    got = object_method(self.idx, recv, f.attr, args, kwargs)
                    if got is not None:
                        return got
                    fld = object_field(self.idx, recv, f.attr)       # a callable kept in a frozen field (e.g. a bound method)
                    if fld is not None:
                        return self._apply(fld, args, kwargs)
                return ('meth', recv, f.attr, args, kwargs)
            if isinstance(f, ast.Name) and f.id == 'getattr' and f.id not in env and len(e.args) == 2 and not e.keywords:
                tgt, nm = b(e.args[0]), b(e.args[1])
                if nm[0] == 'str':
                    key = ('attr', tgt, nm[1])
                    return store.get(key, key)
            # next(<elt> for <targets> in <literal table> if <conds>[, default]): the element of the first row whose conditions hold
            if isinstance(f, ast.Name) and f.id == 'next' and f.id not in env and 1 <= len(e.args) <= 2 and not e.keywords \
                    and isinstance(e.args[0], ast.GeneratorExp) and len(e.args[0].generators) == 1:
                gen = e.args[0].generators[0]
                seq = b(gen.iter)
                names = [gen.target.id] if isinstance(gen.target, ast.Name) else \
                    [t_.id for t_ in gen.target.elts] if isinstance(gen.target, (ast.Tuple, ast.List)) and all(isinstance(t_, ast.Name) for t_ in gen.target.elts) else None
                if seq[0] in ('tuple', 'list') and names is not None and len(seq[1]) <= 32:
                    out = b(e.args[1]) if len(e.args) == 2 else ('opaque', 'StopIteration')
                    okay = True
                    for row in reversed(seq[1]):
                        env2 = dict(env)
                        if isinstance(gen.target, ast.Name):
                            env2[names[0]] = row
                        elif row[0] in ('tuple', 'list') and len(row[1]) == len(names):
                            env2.update(zip(names, row[1]))
                        else:
                            okay = False
                            break
                        conds = [self._b(c_, env2, store) for c_ in gen.ifs]
                        elt = self._b(e.args[0].elt, env2, store)
                        cond = ('bool', True) if not conds else conds[0] if len(conds) == 1 else ('and', tuple(conds))
                        out = elt if cond == ('bool', True) else out if cond == ('bool', False) else ('ifexp', cond, elt, out)
                    if okay:
                        return out
            ft = b(f)
            if ft[0] == 'ext':
                return ('call', ft[1], args, kwargs)
            return self._apply(ft, args, kwargs)
        if isinstance(e, (ast.Tuple, ast.List)):
            if any(isinstance(x, ast.Starred) for x in e.elts):
                return ('opaque', short(e, 60))
            return ('tuple' if isinstance(e, ast.Tuple) else 'list', tuple(b(x) for x in e.elts))
        if isinstance(e, ast.IfExp):
            return ('ifexp', b(e.test), b(e.body), b(e.orelse))
        if isinstance(e, ast.DictComp) and len(e.generators) == 1 and not e.generators[0].ifs and not e.generators[0].is_async:
            # {k(x): v(x) for x in <literal sequence>} is unrolled into a dictionary term
            gen = e.generators[0]
            seq = b(gen.iter)
            if seq[0] in ('tuple', 'list') and len(seq[1]) <= 32:
                items = []
                for elt in seq[1]:
                    env2 = dict(env)
                    if isinstance(gen.target, ast.Name):
                        env2[gen.target.id] = elt
                    elif isinstance(gen.target, (ast.Tuple, ast.List)) and elt[0] in ('tuple', 'list') \
                            and len(elt[1]) == len(gen.target.elts) and all(isinstance(t_, ast.Name) for t_ in gen.target.elts):
                        for t_, v_ in zip(gen.target.elts, elt[1]):
                            env2[t_.id] = v_
                    else:
                        return ('opaque', 'DictComp:' + short(e, 60))
                    items.append((self._b(e.key, env2, store), self._b(e.value, env2, store)))
                return ('dict', tuple(items))
            return ('opaque', 'DictComp:' + short(e, 60))
        if isinstance(e, (ast.ListComp, ast.GeneratorExp)) and len(e.generators) == 1 and not e.generators[0].ifs \
                and isinstance(e.generators[0].target, ast.Name):
            seq = b(e.generators[0].iter)
            if seq[0] in ('tuple', 'list') and len(seq[1]) <= 32:
                return ('list', tuple(self._b(e.elt, dict(env, **{e.generators[0].target.id: x}), store) for x in seq[1]))
            return ('opaque', type(e).__name__ + ':' + short(e, 60))
        if isinstance(e, ast.Dict) and all(k is not None for k in e.keys):
            return ('dict', tuple((b(k), b(v)) for k, v in zip(e.keys, e.values)))
        if isinstance(e, ast.Lambda) and not (e.args.vararg or e.args.kwarg or e.args.kwonlyargs or e.args.defaults):
            LAMBDAS.append((e, dict(env), dict(store), self))
            return ('lambda', len(LAMBDAS) - 1, tuple(a.arg for a in e.args.posonlyargs + e.args.args))
        if isinstance(e, ast.JoinedStr):
            # f'..{a}..{b}' == '..{}..{}'.format(a, b) when no conversion / format spec is used
            template, args = '', []
            for part in e.values:
                if isinstance(part, ast.Constant) and isinstance(part.value, str):
                    template += part.value.replace('{', '{{').replace('}', '}}')
                elif isinstance(part, ast.FormattedValue) and part.conversion == -1 and part.format_spec is None:
                    template += '{}'
                    args.append(b(part.value))
                else:
                    return ('opaque', 'JoinedStr:' + short(e, 60))
            return ('meth', ('str', template), 'format', tuple(args), ())
        return ('opaque', type(e).__name__ + ':' + short(e, 60))

    def _apply(self, ft, args, kwargs):
        """Call of a function-valued term: lambdas are beta-reduced, conditional expressions distribute over the call."""
        if ft[0] == 'lambda' and len(ft[2]) == len(args) and not kwargs:
            node, env, store, builder = LAMBDAS[ft[1]]
            env2 = dict(env)
            env2.update(zip(ft[2], args))
            return builder._b(nf.canon(node.body), env2, store)
        if ft[0] == 'ifexp':
            return ('ifexp', ft[1], self._apply(ft[2], args, kwargs), self._apply(ft[3], args, kwargs))
        if ft[0] == 'attr' and ft[1] == ('self',):
            return ('meth', ft[1], ft[2], args, kwargs)          # a bound method of self handed around as a value
        if ft[0] == 'ext':
            return ('call', ft[1], args, kwargs)
        return ('meth', ft, '__call__', args, kwargs)

    def _is_local(self, name):
        from .index import local_names
        cur = self.fi
        while cur is not None:
            if name in local_names(cur.node):
                return True
            cur = cur.outer
        return False


# ====================================================================== symbolic executor
class SPath(object):
    """One path of a loop-free statement list: guards (terms), leaf, final store/env, effects."""

    def __init__(self, guards, kind, value, exc, stmt, store, env, effects, closures):
        self.guards = guards      # list of (term, ast test node)
        self.kind = kind          # 'ret' | 'raise' | 'fall' | 'assertfail'
        self.value = value        # term (ret) or None
        self.exc = exc            # class name (raise) or None for a bare re-raise
        self.stmt = stmt
        self.store = store        # {('cfg', key) | ('attr', ('self',), name): term}
        self.env = env
        self.effects = effects    # [(term, stmt)]
        self.closures = closures  # {name: (FunctionDef, env, store)}

    @property
    def conds(self):
        return [g for g, _ in self.guards]

    def __repr__(self):
        return 'SPath([%s] -> %s %s)' % (' & '.join(show(g) for g in self.conds), self.kind,
                                        show(self.value) if self.value is not None else self.exc or '')


class _Bind(ast.stmt):
    """Synthetic statement of the executor: bind a local to a term (used when a literal loop is unrolled)."""
    _fields = ()

    def __init__(self, name, term):
        ast.stmt.__init__(self)
        self.name = name
        self.term = term


def sym_exec(idx, fi, stmts=None, env=None, store=None, loops='error', max_paths=400, builder=None, capture=None, self_cls=None):
    """Enumerate the paths of `stmts` (default: the body of fi) with forward substitution of locals,
    of `self.config[...]` writes and of `self.<attr>` writes.  `capture`: dict {id(stmt): None} that is filled with the
    (env, store) in force the first time each listed statement is reached."""
    tb = builder or TermBuilder(idx, fi)
    if self_cls is not None:
        tb.self_cls = self_cls
    out = []

    def assign(target, value, env, store, effects, stmt):
        if isinstance(target, ast.Name):
            env[target.id] = value
        elif isinstance(target, (ast.Tuple, ast.List)):
            for i, t in enumerate(target.elts):
                v = value[1][i] if value[0] in ('tuple', 'list') and len(value[1]) == len(target.elts) \
                    else ('index', value, num(i))
                assign(t, v, env, store, effects, stmt)
        elif isinstance(target, (ast.Subscript, ast.Attribute)):
            tt = TermBuilder.build(tb, _as_load(target), env, {})      # location, not its current content
            if tt[0] == 'cfg' or (tt[0] == 'attr' and tt[1] == ('self',)):
                store[tt] = value
                effects.append((('setcfg', tt, value), stmt))      # keeps the order relative to calls (e.g. super().__init__)
            else:
                store[tt] = value                       # read-after-write inside the analysed fragment (no aliasing)
                effects.append((('store', tt, value), stmt))
        else:
            raise Unsupported('assignment target %s' % short(target))

    def run(stmts, env, store, guards, effects, closures):
        if len(out) > max_paths:
            raise Unsupported('too many paths')
        for i, s in enumerate(stmts):
            BUDGET.tick(3)
            if capture is not None and id(s) in capture and capture[id(s)] is None:
                capture[id(s)] = (dict(env), dict(store))
            if isinstance(s, ast.Expr):
                if isinstance(s.value, ast.Constant):
                    continue
                c = s.value
                # setattr(self, 'name', v)  ==  self.name = v ;  self.<list>.append(v) extends a list held in the store
                if isinstance(c, ast.Call) and isinstance(c.func, ast.Name) and c.func.id == 'setattr' and len(c.args) == 3 and not c.keywords:
                    tgt, nm = tb.build(c.args[0], env, store), tb.build(c.args[1], env, store)
                    if tgt == ('self',) and nm[0] == 'str':
                        store = dict(store)
                        store[('attr', ('self',), nm[1])] = tb.build(c.args[2], env, store)
                        effects = effects + [(('setcfg', ('attr', ('self',), nm[1]), store[('attr', ('self',), nm[1])]), s)]
                        continue
                if isinstance(c, ast.Call) and isinstance(c.func, ast.Attribute) and c.func.attr == 'append' and len(c.args) == 1 and not c.keywords:
                    loc_t = tb.build(c.func.value, env, {})
                    if loc_t in store and store[loc_t][0] == 'list':
                        store = dict(store)
                        store[loc_t] = ('list', store[loc_t][1] + (tb.build(c.args[0], env, store),))
                        continue
                effects = effects + [(tb.build(s.value, env, store), s)]
                continue
            if isinstance(s, ast.Pass):
                continue
            if isinstance(s, (ast.Continue, ast.Break)):
                out.append(SPath(guards, 'continue' if isinstance(s, ast.Continue) else 'break', None, None, s, store, env, effects, closures))
                return
            if isinstance(s, ast.Return):
                val = tb.build(s.value, env, store) if s.value is not None else ('none',)
                out.append(SPath(guards, 'ret', val, None, s, store, env, effects, closures))
                return
            if isinstance(s, ast.Raise):
                out.append(SPath(guards, 'raise', tb.build(s.exc, env, store) if s.exc is not None else None,
                                 nf.exc_class_name(s.exc), s, store, env, effects, closures))
                return
            if isinstance(s, ast.If):
                test = tb.build(s.test, env, store)
                rest = stmts[i + 1:]
                if test != ('bool', False):
                    run(list(s.body) + rest, dict(env), dict(store), guards + [(test, s.test)], list(effects), dict(closures))
                if test != ('bool', True):
                    run(list(s.orelse) + rest, dict(env), dict(store), guards + [(t_not(test), s.test)], list(effects), dict(closures))
                return
            if isinstance(s, ast.Assert):
                test = tb.build(s.test, env, store)
                out.append(SPath(guards + [(t_not(test), s.test)], 'assertfail', None, 'AssertionError', s, store, env,
                                 effects, closures))
                guards = guards + [(test, s.test)]
                continue
            if isinstance(s, ast.Assign):
                env, store, effects = dict(env), dict(store), list(effects)
                val = tb.build(s.value, env, store)
                if len(s.targets) == 1 and isinstance(s.targets[0], (ast.Tuple, ast.List)) and val[0] in ('tuple', 'list') \
                        and len(val[1]) == len(s.targets[0].elts):
                    # simultaneous assignment: all right-hand sides were evaluated first
                    for t, v in zip(s.targets[0].elts, val[1]):
                        assign(t, v, env, store, effects, s)
                else:
                    for t in s.targets:
                        assign(t, val, env, store, effects, s)
                continue
            if isinstance(s, ast.AugAssign):
                env, store, effects = dict(env), dict(store), list(effects)
                cur = ast.BinOp(left=_as_load(s.target), op=s.op, right=s.value)
                assign(s.target, tb.build(cur, env, store), env, store, effects, s)
                continue
            if isinstance(s, (ast.FunctionDef, ast.AsyncFunctionDef)):
                env = dict(env)
                closures = dict(closures)
                env[s.name] = ('closure', s.name)
                closures[s.name] = (s, dict(env), dict(store))
                continue
            if isinstance(s, (ast.Import, ast.ImportFrom)):
                env = dict(env)
                for al in s.names:
                    nm = (al.asname or al.name).split('.')[0]
                    env[nm] = ('ext', (getattr(s, 'module', None) or al.name) + ('.' + al.name if isinstance(s, ast.ImportFrom) else ''))
                continue
            if isinstance(s, _Bind):
                env = dict(env)
                env[s.name] = s.term
                continue
            if isinstance(s, ast.For) and not s.orelse and (isinstance(s.target, ast.Name) or (
                    isinstance(s.target, (ast.Tuple, ast.List)) and all(isinstance(t_, ast.Name) for t_ in s.target.elts))):
                # `for x in (a, b, c)` / `for c, m in ((c1, m1), ...)` over a literal (or a local bound to one) is unrolled
                it = tb.build(s.iter, env, store)
                if it[0] == 'attr' and it[1] == ('self',) and self_cls is not None:
                    _holder, node_ = idx.lookup_attr(self_cls, it[2])         # a class-level literal table of the concrete class
                    if isinstance(node_, (ast.Tuple, ast.List)):
                        it = tb.build(node_, {}, {})
                if it[0] == 'meth' and it[1] == ('self',) and not it[4]:
                    # the table may be built by a helper method that the normaliser left in place (idx.unreviewed)
                    owner = fi
                    while owner.outer is not None:
                        owner = owner.outer
                    callee = idx.lookup(owner.cls, it[2]) if owner.cls is not None else None
                    if callee is not None and callee.qualname in set(getattr(idx, 'unreviewed', ()) or ()) \
                            and len(callee.params) == len(it[3]) + 1:
                        try:
                            cps = sym_exec(idx, callee, env=dict(zip(callee.params[1:], it[3])), store=store)
                        except Unsupported:
                            cps = []
                        if len(cps) == 1 and cps[0].kind == 'ret' and cps[0].store == store:
                            it = cps[0].value
                names = [s.target.id] if isinstance(s.target, ast.Name) else [t_.id for t_ in s.target.elts]
                fits = it[0] in ('tuple', 'list') and len(it[1]) <= 16 and not any(
                    isinstance(n, (ast.Break, ast.Continue)) for b_ in s.body for n in ast.walk(b_))
                if fits and not isinstance(s.target, ast.Name):
                    fits = all(e_[0] in ('tuple', 'list') and len(e_[1]) == len(names) for e_ in it[1])
                if fits:
                    unrolled = []
                    for elt in it[1]:
                        if isinstance(s.target, ast.Name):
                            unrolled.append(_Bind(names[0], elt))
                        else:
                            unrolled.extend(_Bind(n_, v_) for n_, v_ in zip(names, elt[1]))
                        unrolled.extend(s.body)
                    run(unrolled + list(stmts[i + 1:]), env, store, guards, effects, closures)
                    return
            if isinstance(s, (ast.For, ast.While, ast.Try, ast.With)) and loops == 'opaque':
                assigned = {n.id for n in ast.walk(s) if isinstance(n, ast.Name) and isinstance(n.ctx, (ast.Store, ast.Del))}
                env = {k: v for k, v in env.items() if k not in assigned}
                for a in assigned:
                    env[a] = ('opaque', 'assigned-in-%s:%s' % (type(s).__name__, a))
                # attributes / config entries stored inside the opaque statement are unknown afterwards
                attrs = {n.attr for n in ast.walk(s) if isinstance(n, ast.Attribute) and isinstance(n.ctx, (ast.Store, ast.Del))}
                if attrs:
                    store = dict(store)
                    for k in list(store):
                        if k[0] == 'attr' and k[2] in attrs:
                            store[k] = ('opaque', 'assigned-in-%s:.%s' % (type(s).__name__, k[2]))
                    for n in ast.walk(s):
                        if isinstance(n, ast.Attribute) and isinstance(n.ctx, ast.Store):
                            try:
                                loc_t = tb.build(_as_load(n), env, {})
                            except Exception:     # pragma: no cover
                                continue
                            if loc_t[0] == 'attr':
                                store[loc_t] = ('opaque', 'assigned-in-%s:.%s' % (type(s).__name__, n.attr))
                effects = effects + [(('stmt', type(s).__name__), s)]
                continue
            raise Unsupported('statement %s at line %s is outside the supported subset' % (type(s).__name__, getattr(s, 'lineno', '?')))
        out.append(SPath(guards, 'fall', None, None, None, store, env, effects, closures))

    body = list(stmts if stmts is not None else fi.node.body)
    run(body, dict(env or {}), dict(store or {}), [], [], {})
    return out


def _as_load(target):
    from .index import clone
    t = clone(target)
    for n in ast.walk(t):
        if hasattr(n, 'ctx'):
            n.ctx = ast.Load()
    return t


# ========================================================================= scalar domains
MONOTONE_WRAPPERS = {'round', 'float'}          # non-decreasing, keep [0,1] and the endpoints 0, 1 fixed


def strip_wrappers(t):
    """round(x, n) / float(x) -> x (monotone non-decreasing wrappers that fix 0 and 1)."""
    while t[0] == 'call' and t[1] in MONOTONE_WRAPPERS and len(t[2]) >= 1:
        if t[1] == 'round' and len(t[2]) == 2 and not (t[2][1][0] == 'num' and t[2][1][1] >= 1):
            break
        t = t[2][0]
    return t


def sym_name(t):
    if t[0] == 'cfg':
        return t[1]
    if t[0] in ('param', 'sym'):
        return t[1]
    return None


class RatEnv(object):
    """Terms -> Rat.  Non-polynomial sub-terms (b**e with symbolic e) become named atoms."""

    def __init__(self):
        self.atoms = {}     # name -> ('pow', base Rat, exponent Rat, base term, exponent term)

    def rat(self, t):
        BUDGET.tick()
        t = strip_wrappers(t)
        k = t[0]
        if k == 'num':
            return Rat.const(t[1])
        n = sym_name(t)
        if n is not None:
            return Rat.sym(n)
        if k == 'add':
            return self.rat(t[1]) + self.rat(t[2])
        if k == 'sub':
            return self.rat(t[1]) - self.rat(t[2])
        if k == 'mul':
            return self.rat(t[1]) * self.rat(t[2])
        if k == 'div':
            return self.rat(t[1]) / self.rat(t[2])
        if k == 'neg':
            return -self.rat(t[1])
        if k == 'pow' or (k == 'call' and t[1] in ('numpy.power', 'pow', 'math.pow') and len(t[2]) == 2):
            b, e = (t[1], t[2]) if k == 'pow' else t[2]
            rb, re_ = self.rat(b), self.rat(e)
            if re_.is_const() and re_.const_value().denominator == 1 and abs(re_.const_value()) <= 8:
                return rb.ipow(int(re_.const_value()))
            return self.pow_atom(rb, re_)
        if k == 'ext' and t[1] in ('numpy.pi', 'math.pi'):
            return Rat.sym('pi')
        raise Unsupported('no closed form for `%s`' % show(t))

    def pow_atom(self, rb, re_):
        if re_.is_zero():
            return Rat.const(1)
        if re_ == Rat.const(1):
            return rb
        if re_.is_const() and re_.const_value().denominator == 1 and abs(re_.const_value()) <= 8:
            return rb.ipow(int(re_.const_value()))
        for name, (b0, e0) in self.atoms.items():
            if b0 == rb and e0 == re_:
                return Rat.sym(name)
        name = 'pow#%d' % len(self.atoms)
        self.atoms[name] = (rb, re_)
        return Rat.sym(name)

    def subs(self, rat, sym, val):
        """Substitute sym := val, re-simplifying power atoms whose exponent/base mention sym."""
        out = rat
        for name, (b0, e0) in list(self.atoms.items()):
            if name in out.symbols() and (sym in b0.symbols() or sym in e0.symbols()):
                out = out.subs(name, self.pow_atom(self.subs(b0, sym, val), self.subs(e0, sym, val)))
        return out.subs(sym, val)

    def text(self, rat):
        s = rat.text()
        for name, (b0, e0) in self.atoms.items():
            s = s.replace(name, '(%s)**(%s)' % (b0.text(), e0.text()))
        return s


def term_interval(t, facts):
    """Interval of a scalar term over the symbol ranges in `facts` (model table for round/float/pow)."""
    BUDGET.tick()
    t = strip_wrappers(t)
    k = t[0]
    if k == 'num':
        return Interval.point(t[1])
    n = sym_name(t)
    if n is not None:
        return facts.interval_of_sym(n)
    if k in ('add', 'sub', 'mul', 'div'):
        a, b = term_interval(t[1], facts), term_interval(t[2], facts)
        return a + b if k == 'add' else a - b if k == 'sub' else a * b if k == 'mul' else a / b
    if k == 'neg':
        return -term_interval(t[1], facts)
    if k == 'pow':
        b, e = term_interval(t[1], facts), term_interval(t[2], facts)
        if e.is_point() and e.lo.denominator == 1 and 0 <= e.lo <= 8:
            return b.ipow(int(e.lo))
        if b.within(Interval(0, 1)) and e.nonneg():
            return Interval(0, 1)                       # b in [0,1], e >= 0  =>  b**e in [0,1]   (0**0 = 1)
        if b.lo >= 1 and e.nonneg():
            return Interval(1, INF)
        raise Unsupported('power `%s` with base in %s and exponent in %s' % (show(t), b.text(), e.text()))
    if k == 'ext' and t[1] in ('numpy.pi', 'math.pi'):
        return Interval(Fraction(314159, 100000), Fraction(314160, 100000))
    raise Unsupported('no interval model for `%s`' % show(t))


def concrete(t, asg):
    """Exact value of a scalar/boolean term at an assignment {symbol: Fraction | python value}."""
    BUDGET.tick()
    k = t[0]
    if k == 'num':
        return t[1]
    if k in ('str', 'bool'):
        return t[1]
    if k == 'none':
        return None
    n = sym_name(t)
    if n is not None:
        if n not in asg:
            raise Unsupported('no value for symbol %s' % n)
        return asg[n]
    if k in ('add', 'sub', 'mul', 'div', 'mod', 'floordiv'):
        a, b = concrete(t[1], asg), concrete(t[2], asg)
        if k in ('div', 'mod', 'floordiv') and b == 0:
            raise ZeroDivisionError(show(t))
        return {'add': lambda: a + b, 'sub': lambda: a - b, 'mul': lambda: a * b, 'div': lambda: Fraction(a) / b,
                'mod': lambda: a % b, 'floordiv': lambda: a // b}[k]()
    if k == 'neg':
        return -concrete(t[1], asg)
    if k == 'pow':
        a, b = concrete(t[1], asg), concrete(t[2], asg)
        if Fraction(b).denominator != 1:
            raise Unsupported('non-integer exponent in a witness evaluation')
        if a == 0 and b < 0:
            raise ZeroDivisionError(show(t))
        return Fraction(a) ** int(b)
    if k == 'call' and t[1] == 'round' and len(t[2]) == 2:
        return round(Fraction(concrete(t[2][0], asg)), int(concrete(t[2][1], asg)))
    if k == 'call' and t[1] == 'float' and len(t[2]) == 1:
        return concrete(t[2][0], asg)
    if k == 'cmp':
        a, b = concrete(t[2], asg), concrete(t[3], asg)
        return {'<': lambda: a < b, '<=': lambda: a <= b, '==': lambda: a == b, '!=': lambda: a != b,
                'in': lambda: a in b, 'notin': lambda: a not in b, 'is': lambda: a is b or a == b and a is None,
                'isnot': lambda: not (a is b)}[t[1]]()
    if k == 'and':
        return all(concrete(x, asg) for x in t[1])
    if k == 'or':
        return any(concrete(x, asg) for x in t[1])
    if k == 'not':
        return not concrete(t[1], asg)
    if k in ('list', 'tuple'):
        return [concrete(x, asg) for x in t[1]]
    if k == 'ifexp':
        return concrete(t[2] if concrete(t[1], asg) else t[3], asg)
    raise Unsupported('cannot evaluate `%s` concretely' % show(t))


def flip(m):
    return {'inc': 'dec', 'dec': 'inc', 'const': 'const'}.get(m)


def _comb(a, b):
    if a is None or b is None:
        return None
    if a == 'const':
        return b
    if b == 'const' or a == b:
        return a
    return None


def mono(t, var, facts):
    """Monotonicity of scalar term t in symbol `var` over facts: 'const' | 'inc' | 'dec' | None (non-strict)."""
    t = strip_wrappers(t)
    if not any(sym_name(s) == var for s in subterms(t)):
        return 'const'
    k = t[0]
    if sym_name(t) == var:
        return 'inc'
    if k == 'add':
        return _comb(mono(t[1], var, facts), mono(t[2], var, facts))
    if k == 'sub':
        return _comb(mono(t[1], var, facts), flip(mono(t[2], var, facts)))
    if k == 'neg':
        return flip(mono(t[1], var, facts))

    def sign_of(x):
        try:
            iv = term_interval(x, facts)
        except Unsupported:
            return None
        return 'nonneg' if iv.nonneg() else 'nonpos' if iv.nonpos() else None
    if k in ('mul', 'div'):
        a, b = t[1], t[2]
        ma, mb = mono(a, var, facts), mono(b, var, facts)
        if mb == 'const':
            s = sign_of(b)
            if k == 'div':
                try:
                    if term_interval(b, facts).contains_zero():
                        return None
                except Unsupported:
                    return None
            return ma if s == 'nonneg' else flip(ma) if s == 'nonpos' else None
        if ma == 'const' and k == 'mul':
            s = sign_of(a)
            return mb if s == 'nonneg' else flip(mb) if s == 'nonpos' else None
        if ma == 'const' and k == 'div':
            # a / b(var): b must keep one strict sign; 1/b flips b's direction
            try:
                ib = term_interval(b, facts)
            except Unsupported:
                return None
            if not (ib.positive() or ib.negative()):
                return None
            s = sign_of(a)
            inv = flip(mb)
            return inv if s == 'nonneg' else flip(inv) if s == 'nonpos' else None
        return None
    if k == 'pow':
        mb, me = mono(t[1], var, facts), mono(t[2], var, facts)
        try:
            ib, ie = term_interval(t[1], facts), term_interval(t[2], facts)
        except Unsupported:
            return None
        if mb == 'const' and ie.nonneg():
            if ib.within(Interval(0, 1)):
                return flip(me)                 # b in [0,1]: b**e is non-increasing in e (0**0 = 1 >= 0**e)
            if ib.lo >= 1:
                return me
        return None
    return None


# ================================================================== facts from the schema
class VRange(object):
    """Abstract value set admitted by a voluptuous validator term."""

    def __init__(self, interval=None, integer=False, enum=None, numeric=True):
        self.interval = interval
        self.integer = integer
        self.enum = enum          # list of python constants, or None
        self.numeric = numeric

    def to_fact(self, name, source=''):
        if self.enum is not None:
            nums = [Fraction(v) for v in self.enum if isinstance(v, (int, float)) and not isinstance(v, bool)]
            iv = Interval(min(nums), max(nums)) if nums and len(nums) == len(self.enum) else Interval.TOP
            return SymFact(name, iv, integer=all(isinstance(v, int) for v in self.enum), enum=list(self.enum), source=source)
        return SymFact(name, self.interval or Interval.TOP, integer=self.integer, source=source)


def _const_of(expr):
    if isinstance(expr, ast.Call) and isinstance(expr.func, ast.Name) and expr.func.id == 'float' and len(expr.args) == 1 \
            and isinstance(expr.args[0], ast.Constant) and expr.args[0].value in ('inf', '+inf', '-inf'):
        return -INF if expr.args[0].value.startswith('-') else INF
    v = nf.const_value(nf.canon(expr), default=Ellipsis)
    if v is Ellipsis:
        raise Unsupported('not a constant: %s' % short(expr))
    return v


def validator_range(idx, module, expr, bind=None, depth=0):
    """VRange of a validator expression (model of All/Any/Range/NotIn/types; package helpers are inlined)."""
    bind = bind or {}
    if depth > 4:
        raise Unsupported('validator nesting too deep')
    if isinstance(expr, ast.Name) and expr.id in bind:
        return validator_range(idx, bind[expr.id][1], bind[expr.id][0], bind[expr.id][2], depth + 1)
    if isinstance(expr, ast.Name):
        if expr.id == 'int':
            return VRange(Interval.TOP, integer=True)
        if expr.id in ('float', 'Number'):
            return VRange(Interval.TOP)
        if expr.id == 'bool':
            return VRange(enum=[False, True], numeric=False)
        vals = module.assigns.get(expr.id, []) if module is not None else []
        if len(vals) == 1:
            return validator_range(idx, module, vals[0], {}, depth + 1)       # a validator bound to a module-level constant
        kind, obj = idx.resolve_name(module, expr.id) if module is not None else (None, None)
        if kind == 'value' and len(obj[0].assigns.get(obj[1], [])) == 1:
            return validator_range(idx, obj[0], obj[0].assigns[obj[1]][0], {}, depth + 1)
        raise Unsupported('validator %s' % expr.id)
    if isinstance(expr, ast.Constant):
        return VRange(enum=[expr.value], numeric=isinstance(expr.value, (int, float)) and not isinstance(expr.value, bool))
    if isinstance(expr, ast.Call):
        name = nf.callee_name(expr)
        sub = lambda e: validator_range(idx, module, e, bind, depth + 1)   # noqa: E731
        if name in ('All', 'Any') and any(isinstance(a, ast.Starred) for a in expr.args):
            # All(t, *bounds) with `bounds` a list/tuple bound in the helper: splice its elements
            flat = []
            for a in expr.args:
                if isinstance(a, ast.Starred):
                    seq, b2 = a.value, bind
                    hops = 0
                    while isinstance(seq, ast.Name) and seq.id in b2 and hops < 6:
                        seq, _m, b2 = b2[seq.id]
                        hops += 1
                    if not isinstance(seq, (ast.List, ast.Tuple)) or b2 is not bind and any(isinstance(n, ast.Name) and n.id in b2 for x in seq.elts for n in ast.walk(x)):
                        raise Unsupported('starred validator arguments `%s`' % short(a))
                    flat.extend(seq.elts)
                else:
                    flat.append(a)
            expr = ast.Call(func=expr.func, args=flat, keywords=expr.keywords)
        if name == 'All':
            parts = [sub(a) for a in expr.args]
            iv = Interval.TOP
            integer = False
            for p in parts:
                if p.enum is not None:
                    raise Unsupported('enum inside All')
                iv = iv.meet(p.interval)
                integer = integer or p.integer
            for a in expr.args:
                if isinstance(a, ast.Call) and nf.callee_name(a) == 'NotIn':
                    for v in _const_of(a.args[0]):
                        if v == iv.lo:
                            iv = Interval(iv.lo, iv.hi, True, iv.hi_open)
                        if v == iv.hi:
                            iv = Interval(iv.lo, iv.hi, iv.lo_open, True)
            return VRange(iv, integer)
        if name == 'Any':
            parts = [sub(a) for a in expr.args]
            if all(p.enum is not None for p in parts):
                return VRange(enum=[v for p in parts for v in p.enum], numeric=all(p.numeric for p in parts))
            iv = None
            for p in parts:
                if p.enum is not None:
                    if not p.numeric:
                        raise Unsupported('Any mixes a range with non-numeric constants')
                    piv = Interval(Fraction(min(p.enum)), Fraction(max(p.enum)))
                else:
                    piv = p.interval
                iv = piv if iv is None else iv.join(piv)
            return VRange(iv, integer=all(p.integer or p.enum is not None for p in parts))
        if name == 'Range':
            lo = hi = None
            args = list(expr.args)
            kw = {k.arg: k.value for k in expr.keywords}
            lo_e = args[0] if args else kw.get('min')
            hi_e = args[1] if len(args) > 1 else kw.get('max')
            lo = _const_of(lo_e) if lo_e is not None else -INF
            hi = _const_of(hi_e) if hi_e is not None else INF
            if isinstance(lo_e, ast.Name) or isinstance(hi_e, ast.Name):
                raise Unsupported('symbolic Range bound')
            lo_open = not nf.const_value(kw.get('min_included', ast.Constant(value=True)), True)
            hi_open = not nf.const_value(kw.get('max_included', ast.Constant(value=True)), True)
            f = lambda x: x if abs(x) == INF else Fraction(repr(x)) if isinstance(x, float) else Fraction(x)   # noqa: E731
            return VRange(Interval(f(lo), f(hi), lo_open, hi_open))
        if name == 'NotIn':
            return VRange(Interval.TOP)
        # a helper of the package: inline `if <param> == <type>: return ... else: return ...`
        kind, obj = idx.resolve_name(module, name) if isinstance(expr.func, ast.Name) else ('external', None)
        if kind == 'func':
            params = obj.params
            newbind = {}
            for p, a in zip(params, expr.args):
                newbind[p] = (a, module, bind)
            for k in expr.keywords:
                newbind[k.arg] = (k.value, module, bind)
            defaults = obj.node.args.defaults
            for p, dflt in zip(params[len(params) - len(defaults):], defaults):
                newbind.setdefault(p, (dflt, obj.module, {}))
            return _inline_validator(idx, obj, newbind, depth + 1)
        raise Unsupported('validator %s(...)' % name)
    raise Unsupported('validator `%s`' % short(expr))


def _resolve_bound(expr, bind):
    seen = 0
    while isinstance(expr, ast.Name) and expr.id in bind and seen < 6:
        expr, _, bind = bind[expr.id]
        seen += 1
    return expr


def _inline_validator(idx, fi, bind, depth):
    bind = dict(bind)

    def run(stmts):
        for i, s in enumerate(stmts):
            if isinstance(s, ast.Expr) and isinstance(s.value, ast.Constant):
                continue
            if isinstance(s, ast.Assign) and len(s.targets) == 1 and isinstance(s.targets[0], ast.Name) \
                    and s.targets[0].id.startswith('_sa_'):
                continue
            if isinstance(s, ast.Assign) and len(s.targets) == 1 and isinstance(s.targets[0], ast.Name):
                bind[s.targets[0].id] = (s.value, fi.module, dict(bind))      # a local of the helper (e.g. `bounds = [...]`)
                continue
            if isinstance(s, ast.Return):
                return validator_range(idx, fi.module, s.value, bind, depth)
            if isinstance(s, ast.If):
                t = nf.canon(s.test)
                if isinstance(t, ast.Compare) and isinstance(t.ops[0], (ast.Eq, ast.NotEq)):
                    l, r = _resolve_bound(t.left, bind), _resolve_bound(t.comparators[0], bind)
                    if isinstance(l, ast.Name) and isinstance(r, ast.Name):
                        truth = (l.id == r.id) == isinstance(t.ops[0], ast.Eq)
                        res = run(s.body if truth else s.orelse)
                        if res is not None:
                            return res
                        continue
                raise Unsupported('condition `%s` in validator helper %s' % (short(s.test), fi.qualname))
            raise Unsupported('statement in validator helper %s' % fi.qualname)
        return None
    res = run(fi.node.body)
    if res is None:
        raise Unsupported('validator helper %s has no return' % fi.qualname)
    return res


def schema_dict(idx, ci, _depth=0):
    """{key: (default expr | None, validator expr, module)} of a class's schema_config, following
    `Base.schema_config.extend({...})` and `super().schema_config.extend`.  None for non-dict schemas."""
    if _depth > 8:
        raise Unsupported('schema chain too deep')
    owner, val = idx.lookup_attr(ci, 'schema_config')
    meth = idx.lookup(ci, 'schema_config')
    expr = None
    module = None
    if meth is not None and (owner is None or ci.mro.index(meth.cls.qualname) <= ci.mro.index(owner.qualname)):
        rets = [n for n in walk_own(meth.node) if isinstance(n, ast.Return)]
        if len(rets) != 1:
            raise Unsupported('schema_config of %s has %d returns' % (ci.qualname, len(rets)))
        expr, module, owner = rets[0].value, meth.module, meth.cls
    elif owner is not None:
        expr, module = val, owner.module
    if expr is None:
        raise Unsupported('no schema_config for %s' % ci.qualname)
    out = {}
    if isinstance(expr, ast.Call) and nf.callee_name(expr) == 'extend' and isinstance(expr.func, ast.Attribute):
        base = expr.func.value
        if isinstance(base, ast.Attribute) and base.attr == 'schema_config' and isinstance(base.value, ast.Name):
            kind, obj = idx.resolve_name(module, base.value.id)
            if kind != 'class':
                raise Unsupported('schema base %s' % short(base))
            out.update(schema_dict(idx, obj, _depth + 1) or {})
        else:
            raise Unsupported('schema base %s' % short(base))
        d = expr.args[0]
    elif isinstance(expr, ast.Call) and nf.callee_name(expr) == 'Schema' and expr.args and isinstance(expr.args[0], ast.Dict):
        d = expr.args[0]
    else:
        return None
    if not isinstance(d, ast.Dict):
        raise Unsupported('schema of %s is not a dict literal' % ci.qualname)
    for k, v in zip(d.keys, d.values):
        if isinstance(k, ast.Call) and nf.callee_name(k) in ('Required', 'Optional') and k.args and isinstance(k.args[0], ast.Constant):
            dflt = None
            for kw in k.keywords:
                if kw.arg == 'default':
                    dflt = kw.value
            out[k.args[0].value] = (dflt, v, module)
        elif isinstance(k, ast.Constant):
            out[k.value] = (None, v, module)
        else:
            raise Unsupported('schema key `%s`' % short(k))
    return out


def schema_facts(idx, ci, keys=None):
    """Facts for the configuration symbols of class ci (only `keys` if given)."""
    sd = schema_dict(idx, ci)
    if sd is None:
        raise Unsupported('%s has a non-dict schema' % ci.qualname)
    facts = Facts()
    for k, (dflt, v, module) in sd.items():
        if keys is not None and k not in keys:
            continue
        vr = validator_range(idx, module, v)
        facts.add(vr.to_fact(k, source='%s: %s' % (ci.name, short(v, 60))))
    return facts


# ======================================================= piecewise functions of one variable
TRUE, FALSE, UNKNOWN = 'true', 'false', 'unknown'


def decide_cmp(op, diff_sign):
    """Truth of `a op b` from the proved sign of a - b."""
    s = diff_sign
    table = {
        '<': {'neg': TRUE, 'zero': FALSE, 'pos': FALSE, 'nonneg': FALSE},
        '<=': {'neg': TRUE, 'zero': TRUE, 'nonpos': TRUE, 'pos': FALSE},
        '==': {'zero': TRUE, 'pos': FALSE, 'neg': FALSE},
        '!=': {'zero': FALSE, 'pos': TRUE, 'neg': TRUE},
    }
    return table.get(op, {}).get(s, UNKNOWN)


class Piece(object):
    def __init__(self, path, var, renv):
        self.path = path
        self.guards = path.conds
        self.value = path.value
        self.kind = path.kind
        self.var = var
        self.renv = renv

    def guard_status(self, point, facts, relaxed=False):
        """Three-valued truth of the conjunction of guards at var := point (a Rat).
        relaxed: strict comparisons become non-strict and `!=` guards are dropped (closure of the region)."""
        status = TRUE
        for g in self.guards:
            for c in t_conjuncts(g):
                s = self._one(c, point, facts, relaxed)
                if s == FALSE:
                    return FALSE
                if s == UNKNOWN:
                    status = UNKNOWN
        return status

    def _one(self, c, point, facts, relaxed):
        if c[0] == 'bool':
            return TRUE if c[1] else FALSE
        if c[0] != 'cmp' or c[1] not in ('<', '<=', '==', '!='):
            return UNKNOWN
        op = c[1]
        if relaxed:
            if op == '!=':
                return TRUE
            if op == '<':
                op = '<='
        try:
            d = self.renv.subs(self.renv.rat(c[2]) - self.renv.rat(c[3]), self.var, point)
        except Unsupported:
            return UNKNOWN
        return decide_cmp(op, facts.sign(d))

    def value_at(self, point, squeeze_facts=None):
        v = self.renv.subs(self.renv.rat(self.value), self.var, point)
        if squeeze_facts is not None:
            for sym, val in self.squeeze(point, squeeze_facts):
                v = self.renv.subs(v, sym, val)
        return v

    def squeeze(self, point, facts):
        """Equations forced when the closure of the region touches `point`: a guard a <= b whose difference
        a - b is proved >= 0 can only hold with equality; solved for a symbol with a constant coefficient."""
        out = []
        for g in self.guards:
            for c in t_conjuncts(g):
                if c[0] != 'cmp' or c[1] not in ('<', '<='):
                    continue
                try:
                    d = self.renv.subs(self.renv.rat(c[2]) - self.renv.rat(c[3]), self.var, point)
                except Unsupported:
                    continue
                if facts.sign(d) != 'nonneg':
                    continue
                for sym in sorted(d.symbols()):
                    lin = d.linear_in(sym)
                    if lin is not None and lin[0].is_const() and not lin[0].is_zero():
                        out.append((sym, -lin[1] / lin[0]))
                        break
        return out

    def bounds(self, facts):
        """Region of the piece along var: (lowers, uppers, eq_points, neq_points), each a list of (Rat, strict)."""
        lows, ups, eqs, neqs, other = [], [], [], [], []
        for g in self.guards:
            for c in t_conjuncts(g):
                if c[0] != 'cmp' or c[1] not in ('<', '<=', '==', '!='):
                    other.append(c)
                    continue
                try:
                    d = self.renv.rat(c[2]) - self.renv.rat(c[3])      # d op 0
                except Unsupported:
                    other.append(c)
                    continue
                if self.var not in d.symbols():
                    continue
                lin = d.linear_in(self.var)
                if lin is None:
                    other.append(c)
                    continue
                a, b = lin
                sa = facts.sign(a)
                if sa not in ('pos', 'neg'):
                    other.append(c)
                    continue
                bound = -b / a
                if c[1] == '==':
                    eqs.append((bound, False))
                elif c[1] == '!=':
                    neqs.append((bound, False))
                else:
                    strict = c[1] == '<'
                    # a*var + b < 0  <=>  var < bound (a>0)  |  var > bound (a<0)
                    (ups if sa == 'pos' else lows).append((bound, strict))
        return lows, ups, eqs, neqs, other


class Piecewise(object):
    """A function of one variable given by the return paths of a small method."""

    def __init__(self, paths, var, facts):
        self.renv = RatEnv()
        self.var = var
        self.facts = facts
        self.pieces = [Piece(p, var, self.renv) for p in paths]

    def boundaries(self):
        """Distinct finite boundary points (Rats) contributed by the guards of all pieces."""
        out = []
        for p in self.pieces:
            lows, ups, eqs, neqs, _ = p.bounds(self.facts)
            for b, _s in lows + ups + eqs + neqs:
                if not any(b == x for x in out):
                    out.append(b)
        return out

    def eval_concrete(self, asg):
        """('ret', value) | ('raise', class) | ('none', None) at a full assignment (first path whose guards hold)."""
        for p in self.pieces:
            if all(concrete(g, asg) for g in p.guards):
                if p.kind == 'ret':
                    return 'ret', concrete(p.value, asg)
                return p.kind, p.path.exc
        return 'none', None

    def symbols(self):
        syms = set()
        for p in self.pieces:
            for t in list(p.guards) + ([p.value] if p.value is not None else []):
                for s in subterms(t):
                    n = sym_name(s)
                    if n is not None:
                        syms.add(n)
        syms.discard(self.var)
        return sorted(syms)

    def scan(self, values, check, limit=4000):
        """Exact evaluation over the witness grid of the configuration symbols x `values` of var.
        `check(asg, series)` gets the assignment and [(v, outcome)] and returns a message or None."""
        names = self.symbols()
        for asg in self.facts.witness_grid(names, limit):
            series = []
            try:
                for v in values:
                    a = dict(asg)
                    a[self.var] = Fraction(v)
                    series.append((v, self.eval_concrete(a)))
            except (Unsupported, ZeroDivisionError) as e:
                series.append(('error', ('error', str(e))))
            msg = check(asg, series)
            if msg:
                return asg, msg
        return None


# ======================================================================== Mag: array domain
class MagVal(object):
    """Abstract array/scalar: symbolic shape, entrywise magnitude bound (a Rat over configuration symbols),
    optional numeric interval for real entries, optional deterministic symbolic value for scalars,
    `exact` = the bound is the supremum over all draws/inputs (range-exact flag of every operation so far)."""

    def __init__(self, shape=(), kind='real', bound=None, lo=None, hi=None, hi_open=False, exact=True, value=None,
                 offset=None, free=False, wrapped=None, note=''):
        self.shape = tuple(shape)
        self.kind = kind              # 'real' | 'imag' | 'complex'
        self.bound = bound            # Rat or None (unbounded / free input)
        self.lo, self.hi, self.hi_open = lo, hi, hi_open
        self.exact = exact
        self.value = value            # Rat: deterministic scalar (configuration expression)
        self.offset = offset if offset is not None else Rat.const(0)
        self.free = free              # ranges over arbitrary reals (student-supplied input)
        self.wrapped = wrapped        # 'MathArray' when wrapped
        self.note = note

    def clone(self, **kw):
        d = dict(shape=self.shape, kind=self.kind, bound=self.bound, lo=self.lo, hi=self.hi, hi_open=self.hi_open,
                 exact=self.exact, value=self.value, offset=self.offset, free=self.free, wrapped=self.wrapped, note=self.note)
        d.update(kw)
        return MagVal(**d)

    def text(self, renv=None):
        sh = '(%s)' % ', '.join(s.text() for s in self.shape)
        b = 'unbounded' if self.bound is None else '|x| <= %s%s' % (self.bound.text(), '' if self.exact else ' (not tight)')
        off = '' if self.offset.is_zero() else ' around %s' % self.offset.text()
        return 'shape %s, %s, %s%s' % (sh, self.kind, b, off)


KIND_MUL = {('real', 'real'): 'real', ('real', 'imag'): 'imag', ('imag', 'real'): 'imag', ('imag', 'imag'): 'real'}
UNIFORM_01 = {'numpy.random.rand', 'numpy.random.random_sample', 'numpy.random.random', 'numpy.random.ranf',
              'numpy.random.sample', 'random.random'}


class MagEval(object):
    """Evaluates terms in the Mag domain.  `facts` gives the signs of configuration symbols;
    `dim_subst` maps terms (e.g. len(args)) to Rats established by path guards."""

    def __init__(self, facts, dim_subst=None, renv=None):
        if 'pi' not in facts.syms:
            facts = facts.copy().add(SymFact('pi', Interval(Fraction(314159, 100000), Fraction(314160, 100000))))
        self.facts = facts
        self.renv = renv or RatEnv()
        self.dim_subst = dict(dim_subst or {})
        self.draws = 0

    def dim(self, t):
        if t in self.dim_subst:
            return self.dim_subst[t]
        if t[0] == 'index' and t[1][0] == 'attr' and t[1][2] == 'shape' and t[2][0] == 'num':
            sh = self.ev(t[1][1]).shape            # x.shape[i] of an array whose symbolic shape is known
            i = int(t[2][1])
            if -len(sh) <= i < len(sh):
                return sh[i]
            raise Unsupported('shape index %d of a %d-axis array' % (i, len(sh)))
        if t[0] == 'call' and t[1] == 'len' and len(t[2]) == 1 and t not in self.dim_subst:
            try:
                sh = self.ev(t[2][0]).shape
                if sh:
                    return sh[0]
            except Unsupported:
                pass
        try:
            return self.renv.rat(t)
        except Unsupported:
            raise Unsupported('array dimension `%s` is not a configuration expression' % show(t))

    def shape_of(self, t):
        if t[0] in ('tuple', 'list'):
            return tuple(self.dim(x) for x in t[1])
        return (self.dim(t),)

    def scalar_value(self, v):
        """|v| as a Rat for a deterministic scalar, using sign facts."""
        if v.value is None:
            raise Unsupported('scalar without a symbolic value')
        s = self.facts.sign(v.value)
        if s in ('pos', 'nonneg', 'zero'):
            return v.value
        if s in ('neg', 'nonpos'):
            return -v.value
        raise Unsupported('sign of `%s` is unknown' % v.value.text())

    def ev(self, t):
        BUDGET.tick()
        k = t[0]
        if k == 'num':
            c = Rat.const(t[1])
            return MagVal((), 'real', Rat.const(abs(t[1])), t[1], t[1], value=c)
        if k == 'imag':
            return MagVal((), 'imag', Rat.const(abs(t[1])), value=None, note='const')
        if k == 'ext' and t[1] in ('numpy.pi', 'math.pi'):
            p = Rat.sym('pi')
            return MagVal((), 'real', p, value=p)
        if sym_name(t) is not None:
            v = Rat.sym(sym_name(t))
            s = self.facts.sign(v)
            b = v if s in ('pos', 'nonneg') else -v if s in ('neg', 'nonpos') else None
            return MagVal((), 'real', b, value=v)
        if k == 'neg':
            a = self.ev(t[1])
            return a.clone(value=-a.value if a.value is not None else None,
                           lo=-a.hi if a.hi is not None else None, hi=-a.lo if a.lo is not None else None, hi_open=False,
                           offset=-a.offset)
        if k in ('add', 'sub'):
            return self._add(self.ev(t[1]), self.ev(t[2]) if k == 'add' else self.ev(('neg', t[2])), t)
        if k == 'mul':
            return self._mul(self.ev(t[1]), self.ev(t[2]), t)
        if k == 'div':
            a, b = self.ev(t[1]), self.ev(t[2])
            if b.shape != () or b.value is None or b.kind != 'real':
                raise Unsupported('division by a non-scalar or non-deterministic value in `%s`' % show(t))
            if b.value.is_zero():
                raise Unsupported('division by zero in `%s`' % show(t))
            inv = MagVal((), 'real', None, value=Rat.const(1) / b.value)
            if self.facts.sign(b.value) not in ('pos', 'neg'):
                raise Unsupported('divisor `%s` may vanish' % b.value.text())
            return self._mul(a, inv, t)
        if k == 'call':
            return self._call(t)
        if k == 'index' and t[2][0] == 'num':
            a = self.ev(t[1])
            if not a.shape:
                raise Unsupported('indexing a scalar in `%s`' % show(t))
            return a.clone(shape=a.shape[1:], wrapped=None)
        raise Unsupported('no array model for `%s`' % show(t))

    def _same_shape(self, a, b, t):
        if a.shape == () or b.shape == ():
            return a.shape or b.shape
        if len(a.shape) != len(b.shape) or any(not (x == y) for x, y in zip(a.shape, b.shape)):
            raise Unsupported('shapes %s and %s in `%s` are not provably equal (broadcasting is outside the model)'
                              % ([s.text() for s in a.shape], [s.text() for s in b.shape], show(t)))
        return a.shape

    def _add(self, a, b, t):
        shape = self._same_shape(a, b, t)
        if a.value is not None and b.value is not None:
            v = a.value + b.value
            return MagVal((), 'real', None, value=v) if not v.is_const() else self.ev(('num', v.const_value()))
        if a.free or b.free:
            return MagVal(shape, 'real' if a.kind == b.kind == 'real' else 'complex', None, free=True, exact=True)
        # array + deterministic scalar: numeric constants shift the interval, symbolic ones become the offset
        for x, y in ((a, b), (b, a)):
            if y.value is not None and y.shape == ():
                if y.value.is_const() and x.lo is not None and x.kind == 'real':
                    c = y.value.const_value()
                    lo, hi = x.lo + c, x.hi + c
                    return x.clone(shape=shape, lo=lo, hi=hi, bound=Rat.const(max(abs(lo), abs(hi))))
                return x.clone(shape=shape, offset=x.offset + y.value)
        kind = a.kind if a.kind == b.kind else 'complex'
        if a.bound is None or b.bound is None:
            return MagVal(shape, kind, None, exact=a.exact and b.exact)
        lo = a.lo + b.lo if None not in (a.lo, b.lo) else None
        hi = a.hi + b.hi if None not in (a.hi, b.hi) else None
        return MagVal(shape, kind, a.bound + b.bound, lo, hi, a.hi_open or b.hi_open, a.exact and b.exact,
                      offset=a.offset + b.offset)

    def _mul(self, a, b, t):
        shape = self._same_shape(a, b, t)
        if a.value is not None and b.value is not None:
            return MagVal((), 'real', None, value=a.value * b.value) if not (a.value * b.value).is_const() \
                else self.ev(('num', (a.value * b.value).const_value()))
        kind = KIND_MUL.get((a.kind, b.kind), 'complex')
        if a.free or b.free:
            return MagVal(shape, kind, None, free=True)
        for x, y in ((a, b), (b, a)):
            if y.value is not None and y.shape == ():         # scale by a deterministic scalar
                if not x.offset.is_zero():
                    raise Unsupported('scaling a shifted value in `%s`' % show(t))
                m = self.scalar_value(y)
                lo = hi = None
                if x.lo is not None and y.value.is_const():
                    c = y.value.const_value()
                    lo, hi = sorted((x.lo * c, x.hi * c))
                return x.clone(shape=shape, kind=kind, bound=x.bound * m if x.bound is not None else None, lo=lo, hi=hi,
                               hi_open=x.hi_open and (y.value.is_const() and y.value.const_value() > 0))
            if y.note == 'const' and y.shape == () and y.kind == 'imag':      # imaginary constant such as 2j
                return x.clone(shape=shape, kind=kind, bound=x.bound * y.bound if x.bound is not None else None, lo=None, hi=None)
        if not (a.offset.is_zero() and b.offset.is_zero()):
            raise Unsupported('product of shifted values in `%s`' % show(t))
        bound = a.bound * b.bound if None not in (a.bound, b.bound) else None
        return MagVal(shape, kind, bound, exact=a.exact and b.exact)

    def _call(self, t):
        name, args, kwargs = t[1], t[2], dict(t[3])
        if name in UNIFORM_01:
            if name in ('numpy.random.rand',):
                shape = tuple(self.dim(a) for a in args)
            else:
                shape = self.shape_of(args[0]) if args else ()
                if kwargs.get('size') is not None:
                    shape = self.shape_of(kwargs['size'])
            self.draws += 1
            return MagVal(shape, 'real', Rat.const(1), Fraction(0), Fraction(1), True, exact=True)
        if name in ('numpy.sin', 'numpy.cos') and len(args) == 1:
            a = self.ev(args[0])
            if a.kind != 'real':
                raise Unsupported('%s of a non-real argument is unbounded' % name)
            return MagVal(a.shape, 'real', Rat.const(1), Fraction(-1), Fraction(1), False, exact=True)
        if name == 'numpy.exp' and len(args) == 1:
            a = self.ev(args[0])
            if a.kind == 'imag':
                return MagVal(a.shape, 'complex', Rat.const(1), exact=True, note='unit modulus')
            raise Unsupported('exp of a %s argument has no bounded modulus in the model' % a.kind)
        if name == 'numpy.array' and len(args) == 1:
            return MagVal((self.dim(('call', 'len', (args[0],), ())),), 'real', None, free=True)
        if name == 'numpy.tile' and len(args) == 2:
            a = self.ev(args[0])
            reps = self.shape_of(args[1])
            base = (Rat.const(1),) * (len(reps) - len(a.shape)) + a.shape
            if len(base) != len(reps):
                raise Unsupported('tile with fewer repetitions than axes')
            return a.clone(shape=tuple(x * y for x, y in zip(reps, base)))
        if name == 'numpy.sum' and len(args) >= 1:
            a = self.ev(args[0])
            ax = kwargs.get('axis', args[1] if len(args) > 1 else None)
            if ax is None or ax[0] != 'num':
                raise Unsupported('np.sum without a constant axis')
            i = int(ax[1])
            if not (0 <= i < len(a.shape)):
                raise Unsupported('np.sum over axis %d of a %d-axis array' % (i, len(a.shape)))
            n = a.shape[i]
            if not a.offset.is_zero():
                raise Unsupported('sum of a shifted array')
            return a.clone(shape=a.shape[:i] + a.shape[i + 1:], bound=a.bound * n if a.bound is not None else None,
                           lo=None, hi=None)
        if name.split('.')[-1] == 'MathArray' and len(args) == 1:
            return self.ev(args[0]).clone(wrapped='MathArray')
        raise Unsupported('no model for %s(...)' % name)


# ============================================================ Alg: free algebra of matrix words
class AlgVal(object):
    """Either a matrix: linear combination {word: Rat} of words over one matrix variable W, where a word is
    ('W', t, c, d) (t: transposed, c: conjugated, d: diag(diag(.)) applied) or ('I', n) (identity of size n);
    or a scalar (Rat over the symbols tr = trace(W), trc = conj(trace(W)) and configuration symbols)."""

    def __init__(self, matrix=None, scalar=None, other=None):
        self.matrix = {w: c for w, c in (matrix or {}).items() if not c.is_zero()} if matrix is not None else None
        self.scalar = scalar
        self.other = other          # e.g. ('vector', ...) for shapes outside the algebra

    @property
    def is_matrix(self):
        return self.matrix is not None

    def map_words(self, f):
        out = {}
        for w, c in self.matrix.items():
            w2 = f(w)
            out[w2] = out.get(w2, Rat.const(0)) + c
        return AlgVal(matrix=out)

    def T(self):
        return self.map_words(lambda w: w if w[0] == 'I' or w[3] else ('W', 1 - w[1], w[2], 0))

    def C(self):
        for w, c in self.matrix.items():
            if not c.is_const():
                if c.symbols() & {'tr', 'trc'}:
                    raise Unsupported('conjugate of a trace-dependent coefficient')
        return self.map_words(lambda w: w if w[0] == 'I' else ('W', w[1], 1 - w[2], w[3]))

    def D(self):
        return self.map_words(lambda w: w if w[0] == 'I' else ('W', 0, w[2], 1))

    def add(self, o, sign=1):
        out = dict(self.matrix)
        for w, c in o.matrix.items():
            out[w] = out.get(w, Rat.const(0)) + (c if sign > 0 else -c)
        return AlgVal(matrix=out)

    def scale(self, s):
        return AlgVal(matrix={w: c * s for w, c in self.matrix.items()})

    def equals(self, o, sign=1):
        keys = set(self.matrix) | set(o.matrix)
        zero = Rat.const(0)
        return all(self.matrix.get(k, zero) == (o.matrix.get(k, zero) if sign > 0 else -o.matrix.get(k, zero)) for k in keys)

    def is_zero(self):
        return not self.matrix

    def trace(self):
        tot = Rat.const(0)
        for w, c in self.matrix.items():
            if w[0] == 'I':
                tot = tot + c * w[1]
            else:
                tot = tot + c * Rat.sym('trc' if w[2] else 'tr')
        return tot

    def text(self):
        if self.scalar is not None:
            return self.scalar.text()
        if self.matrix is None:
            return str(self.other)

        def word(w):
            if w[0] == 'I':
                return 'I_%s' % w[1].text()
            s = 'W'
            if w[1]:
                s = s + '^T'
            if w[2]:
                s = 'conj(%s)' % s
            if w[3]:
                s = 'diag(%s)' % s
            return s
        parts = []
        for w, c in sorted(self.matrix.items(), key=lambda wc: str(wc[0])):
            ct = c.text()
            parts.append(word(w) if ct == '1' else '-' + word(w) if ct == '-1' else '(%s)*%s' % (ct, word(w)))
        return ' + '.join(parts).replace('+ -', '- ') or '0'


TRANSPOSE_NAMES = {'transpose'}
CONJ_NAMES = {'conj', 'conjugate'}


FIELD_CASTS = (('ifexp', ('cfg', 'complex'), ('ext', 'complex'), ('ext', 'float')),
               ('ifexp', ('not', ('cfg', 'complex')), ('ext', 'float'), ('ext', 'complex')))


class AlgEval(object):
    def __init__(self, base_term, renv=None, field_flag=True):
        self.base = base_term
        self.renv = renv or RatEnv()
        self.field_flag = field_flag      # is config['complex'] the field of the arrays handled here?
        self.casts = []

    def ev(self, t):
        BUDGET.tick()
        if t == self.base:
            return AlgVal(matrix={('W', 0, 0, 0): Rat.const(1)})
        k = t[0]
        if k == 'meth' and not t[3] and not t[4] and t[2] in TRANSPOSE_NAMES | CONJ_NAMES | {'trace'}:
            a = self.ev(t[1])
            return self._unary(t[2], a, t)
        if k == 'attr' and t[2] == 'T':
            return self._unary('transpose', self.ev(t[1]), t)
        if k == 'meth' and t[2] == 'astype' and len(t[3]) == 1 and not t[4]:
            if t[3][0] in FIELD_CASTS and self.field_flag:
                self.casts.append(t)
                return self.ev(t[1])          # the array's field already is complex iff config['complex'] (C12-D3.DRAW): no-op
            raise Unsupported('cast `%s` is outside the matrix-word algebra' % show(t[3][0]))
        if k == 'call' and t[1].startswith('numpy.') and len(t[2]) == 1 and not t[3]:
            fn = t[1].split('.')[-1]
            if fn in TRANSPOSE_NAMES | CONJ_NAMES | {'trace'}:
                return self._unary(fn, self.ev(t[2][0]), t)
            if fn == 'diag':
                inner = t[2][0]
                if inner[0] == 'call' and inner[1] == 'numpy.diag' and len(inner[2]) == 1:
                    a = self.ev(inner[2][0])
                    if a.is_matrix:
                        return a.D()
                a = self.ev(inner)
                if a.is_matrix:
                    return AlgVal(other=('vector', 'the diagonal of %s as a 1-D array' % a.text()))
                raise Unsupported('np.diag of `%s`' % show(inner))
            if fn in ('eye', 'identity'):
                return AlgVal(matrix={('I', self.renv.rat(t[2][0])): Rat.const(1)})
            if fn in ('triu', 'tril'):
                a = self.ev(t[2][0])
                return AlgVal(other=(fn, a))
        if k in ('add', 'sub'):
            a, b = self.ev(t[1]), self.ev(t[2])
            if a.is_matrix and b.is_matrix:
                return a.add(b, 1 if k == 'add' else -1)
            if a.scalar is not None and b.scalar is not None:
                return AlgVal(scalar=a.scalar + b.scalar if k == 'add' else a.scalar - b.scalar)
            raise Unsupported('`%s` mixes matrices and scalars' % show(t))
        if k == 'neg':
            a = self.ev(t[1])
            return a.scale(Rat.const(-1)) if a.is_matrix else AlgVal(scalar=-a.scalar)
        if k in ('mul', 'div'):
            a, b = self.ev(t[1]), self.ev(t[2])
            if k == 'div':
                if b.scalar is None or b.scalar.is_zero():
                    raise Unsupported('division by a matrix in `%s`' % show(t))
                inv = Rat.const(1) / b.scalar
                return a.scale(inv) if a.is_matrix else AlgVal(scalar=a.scalar * inv)
            if a.is_matrix and b.scalar is not None:
                return a.scale(b.scalar)
            if b.is_matrix and a.scalar is not None:
                return b.scale(a.scalar)
            if a.scalar is not None and b.scalar is not None:
                return AlgVal(scalar=a.scalar * b.scalar)
            raise Unsupported('matrix product in `%s`' % show(t))
        try:
            return AlgVal(scalar=self.renv.rat(t))
        except Unsupported:
            raise Unsupported('`%s` is outside the matrix-word algebra' % show(t))

    def _unary(self, fn, a, t):
        if fn == 'trace':
            if not a.is_matrix:
                raise Unsupported('trace of a non-matrix')
            return AlgVal(scalar=a.trace())
        if not a.is_matrix:
            raise Unsupported('%s of a non-matrix in `%s`' % (fn, show(t)))
        return a.T() if fn in TRANSPOSE_NAMES else a.C()


# ================================================================ Enum: finite option domains
class _Unknown(object):
    def __repr__(self):
        return '?'


UNK = _Unknown()


class _Callable(object):
    def __init__(self, term):
        self.term = term

    def __eq__(self, o):
        return isinstance(o, _Callable) and o.term == self.term

    def __hash__(self):
        return hash(self.term)

    def __bool__(self):
        return True


def enum_eval(t, asg):
    """Value of a term under an assignment of configuration keys (python values); UNK when data-dependent."""
    BUDGET.tick()
    if t in asg:                      # whole terms (e.g. an opaque loop result) may be assigned directly
        return asg[t]
    k = t[0]
    if k in ('str', 'bool'):
        return t[1]
    if k == 'num':
        return int(t[1]) if t[1].denominator == 1 else t[1]
    if k == 'none':
        return None
    if k in ('lambda', 'ext', 'dict'):
        return _Callable(t)              # a definite non-None object (only `is None` / truthiness can be decided)
    if k == 'cfg':
        return asg.get(t[1], UNK)
    if k in ('list', 'tuple'):
        vals = [enum_eval(x, asg) for x in t[1]]
        return UNK if any(v is UNK for v in vals) else vals
    if k == 'not':
        v = enum_eval(t[1], asg)
        return UNK if v is UNK else (not v)
    if k in ('and', 'or'):
        vals = [enum_eval(x, asg) for x in t[1]]
        if k == 'and':
            if any(v is not UNK and not v for v in vals):
                return False
            return UNK if any(v is UNK for v in vals) else True
        if any(v is not UNK and v for v in vals):
            return True
        return UNK if any(v is UNK for v in vals) else False
    if k == 'cmp':
        a, b = enum_eval(t[2], asg), enum_eval(t[3], asg)
        if a is UNK or b is UNK:
            return UNK
        try:
            return {'==': lambda: a == b and type(a) is type(b) or (a == b and not isinstance(a, bool) and not isinstance(b, bool)),
                    '!=': lambda: not (a == b), '<': lambda: a < b, '<=': lambda: a <= b,
                    'in': lambda: any(a == x and (x is not None or a is None) for x in b) if a is not None else any(x is None for x in b),
                    'notin': lambda: not (any(a == x for x in b) if a is not None else any(x is None for x in b)),
                    'is': lambda: a is b, 'isnot': lambda: a is not b}[t[1]]()
        except TypeError:
            return UNK
    if k == 'ifexp':
        c = enum_eval(t[1], asg)
        if c is UNK:
            a, b = enum_eval(t[2], asg), enum_eval(t[3], asg)
            return a if (a is not UNK and b is not UNK and a == b) else UNK
        return enum_eval(t[2] if c else t[3], asg)
    if k in ('mod', 'add', 'sub', 'mul', 'floordiv'):
        a, b = enum_eval(t[1], asg), enum_eval(t[2], asg)
        if a is UNK or b is UNK or isinstance(a, (str, type(None))) or isinstance(b, (str, type(None))):
            return UNK
        try:
            return {'mod': lambda: a % b, 'add': lambda: a + b, 'sub': lambda: a - b, 'mul': lambda: a * b,
                    'floordiv': lambda: a // b}[k]()
        except ZeroDivisionError:
            return UNK
    return UNK


def enum_run(paths, asg):
    """Paths (from sym_exec) that are not excluded under the assignment: [(path, definite?)]."""
    out = []
    for p in paths:
        vals = [enum_eval(g, asg) for g in p.conds]
        if any(v is not UNK and not v for v in vals):
            continue
        out.append((p, not any(v is UNK for v in vals)))
    return out


def enum_store(path, asg):
    """Assignment after the path's writes to self.config (values that are not constants become UNK)."""
    new = dict(asg)
    for k, v in path.store.items():
        if k[0] == 'cfg':
            new[k[1]] = enum_eval(v, asg)
    return new



# ================================================== partial evaluation under an option assignment
def specialise(idx, fi, t, asg, depth=0):
    """Partial evaluation of a term under an assignment of configuration options: class-level dispatch tables
    (`self._table.get(option)`), `{...}.get(option)`, calls of the selected lambda / numpy function, and
    conditional expressions whose test is decided.  Everything else is rebuilt unchanged."""
    BUDGET.tick()
    if depth > 12 or not isinstance(t, tuple) or not t or not isinstance(t[0], str):
        return t
    sp = lambda x: specialise(idx, fi, x, asg, depth + 1)     # noqa: E731
    k = t[0]
    if k == 'attr' and t[1] == ('self',):
        owner = fi
        while owner.outer is not None:
            owner = owner.outer
        if owner.cls is not None:
            holder, node = idx.lookup_attr(owner.cls, t[2])
            if node is not None and isinstance(node, (ast.Dict, ast.Tuple, ast.List, ast.Constant)):
                anyfi = next(iter(holder.methods.values()), None)
                if anyfi is not None:
                    return sp(TermBuilder(idx, anyfi).build(node, {}))
        return t
    if k == 'ifexp':
        c = enum_eval(sp(t[1]), asg)
        if c is not UNK:
            return sp(t[2] if c else t[3])
        return ('ifexp', sp(t[1]), sp(t[2]), sp(t[3]))
    if k == 'meth':
        recv = sp(t[1])
        args = tuple(sp(a) for a in t[3])
        kwargs = tuple((n, sp(v)) for n, v in t[4])
        if recv[0] == 'dict' and t[2] == 'get' and 1 <= len(args) <= 2 and not kwargs:
            key = enum_eval(args[0], asg)
            if key is not UNK:
                for kt, vt in recv[1]:
                    kv = enum_eval(kt, asg)
                    if kv is UNK:
                        return ('meth', recv, t[2], args, kwargs)
                    if kv == key and type(kv) is type(key):
                        return vt
                return args[1] if len(args) == 2 else ('none',)
        if t[2] == '__call__' and recv[0] == 'lambda' and len(recv[2]) == len(args) and not kwargs:
            node, env, store, builder = LAMBDAS[recv[1]]
            env2 = dict(env)
            env2.update(zip(recv[2], args))
            return sp(builder.build(node.body, env2, store))
        if t[2] == '__call__' and recv[0] == 'ext':
            return ('call', recv[1], args, kwargs)
        if recv == ('self',) and not kwargs:
            # a helper method the normaliser could not inline (listed in idx.unreviewed): expand a single straight-line return
            owner = fi
            while owner.outer is not None:
                owner = owner.outer
            callee = idx.lookup(owner.cls, t[2]) if owner.cls is not None else None
            if callee is not None and callee.qualname in set(getattr(idx, 'unreviewed', ()) or ()) \
                    and len(callee.params) == len(args) + 1 and not (callee.node.args.vararg or callee.node.args.kwarg):
                try:
                    cps = sym_exec(idx, callee, env=dict(zip(callee.params[1:], args)))
                except Unsupported:
                    cps = []
                if len(cps) == 1 and cps[0].kind == 'ret' and not cps[0].store:
                    return sp(cps[0].value)
        return ('meth', recv, t[2], args, kwargs)
    if k == 'index':
        base, i = sp(t[1]), sp(t[2])
        if base[0] == 'dict':
            key = enum_eval(i, asg)
            if key is not UNK:
                for kt, vt in base[1]:
                    kv = enum_eval(kt, asg)
                    if kv is not UNK and kv == key and type(kv) is type(key):
                        return vt
        return ('index', base, i)
    if k == 'call':
        return ('call', t[1], tuple(sp(a) for a in t[2]), tuple((n, sp(v)) for n, v in t[3]))
    if k in ('and', 'or', 'tuple', 'list'):
        return (k, tuple(sp(x) for x in t[1]))
    if k == 'cmp':
        return ('cmp', t[1], sp(t[2]), sp(t[3]))
    if k in ('add', 'sub', 'mul', 'div', 'pow', 'mod', 'floordiv', 'matmul', 'neg', 'not'):
        return (k,) + tuple(sp(x) for x in t[1:])
    if k == 'attr':
        return ('attr', sp(t[1]), t[2])
    return t
