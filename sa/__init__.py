"""Static-analysis checkers for mitx-grading-library properties C01-C20 (see /verif/DESIGN.md)."""
