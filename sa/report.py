"""E12: rule bookkeeping, evidence files, known findings, replay files, exit codes."""
import hashlib
import json
import os
import time

from .index import AnalysisError

VERIF = os.path.dirname(os.path.dirname(os.path.abspath(__file__)))
EVIDENCE_DIR = os.path.join(VERIF, 'evidence')
REPLAY_DIR = os.path.join(EVIDENCE_DIR, 'replay')
KNOWN_FILE = os.path.join(VERIF, 'known_findings.txt')

OK, VIOLATION, UNDECIDED, NOTE = 'discharged', 'violation', 'undecided', 'note'

COMMON_ASSUMPTIONS = [
    "CPython's ast module parses /repo's working tree faithfully; nothing of the library is imported or executed",
    "numpy, pyparsing, re and the Python builtins behave as documented (model tables inside the checker)",
    "the vendored voluptuous engine is trusted; only the library's use of it is analysed",
    "author-supplied callables (comparers, user functions, credit schedules, subgraders) respect their documented contracts",
    "no monkey-patching of the package from outside; plugins are analysed as ordinary modules",
    "the decided clauses are necessary structural conditions of the property, not the value-level behaviour (see level_note)",
]


class Obligation(object):
    __slots__ = ('rule', 'construct', 'loc', 'status', 'detail', 'nontrivial', 'expected', 'found')

    def __init__(self, rule, construct, loc, status, detail, nontrivial=True, expected=None, found=None):
        self.rule = rule
        self.construct = construct
        self.loc = loc
        self.status = status
        self.detail = detail
        self.nontrivial = nontrivial
        self.expected = expected
        self.found = found

    @property
    def key(self):
        return '%s|%s' % (self.rule, self.construct)

    def as_dict(self):
        d = {'rule': self.rule, 'construct': self.construct, 'loc': self.loc, 'status': self.status,
             'detail': self.detail}
        if self.expected is not None:
            d['expected'] = self.expected
        if self.found is not None:
            d['found'] = self.found
        return d


class Rule(object):
    """Collects the obligations of one rule (e.g. 'C01.D3.PAIR')."""

    def __init__(self, ctx, rule_id, statement, floor=0):
        self.ctx = ctx
        self.id = rule_id
        self.statement = statement
        self.floor = floor
        self.obligations = []
        self.notes = []

    def ok(self, construct, detail='', loc='', nontrivial=True):
        self.obligations.append(Obligation(self.id, construct, loc, OK, detail, nontrivial))

    def violation(self, construct, detail, loc='', expected=None, found=None):
        self.obligations.append(Obligation(self.id, construct, loc, VIOLATION, detail, True, expected, found))

    def undecided(self, construct, detail, loc=''):
        self.obligations.append(Obligation(self.id, construct, loc, UNDECIDED, detail, True))

    def note(self, text):
        self.notes.append(text)

    def verdict(self, construct, result, loc='', ok_detail='', expected=None):
        """Record the outcome of nf.classify: MATCH / ('DIFF', text) / UNRECOGNISED."""
        if result == 'MATCH':
            self.ok(construct, ok_detail, loc)
        elif isinstance(result, tuple) and result[0] == 'DIFF':
            self.violation(construct, result[1], loc, expected=expected)
        else:
            self.undecided(construct, 'shape not recognised' + (' (expected %s)' % expected if expected else ''), loc)

    def check(self, cond, construct, ok_detail, bad_detail, loc='', expected=None, found=None):
        if cond:
            self.ok(construct, ok_detail, loc)
        else:
            self.violation(construct, bad_detail, loc, expected=expected, found=found)
        return cond

    # context-manager sugar: an AnalysisError inside a rule becomes an undecided obligation
    def __enter__(self):
        return self

    def __exit__(self, et, ev, tb):
        if et is not None and issubclass(et, AnalysisError):
            self.undecided('<rule>', str(ev))
            return True
        return False

    @property
    def n(self):
        return len(self.obligations)


class Context(object):
    def __init__(self, prop, index, tier='quick', seed=0, quiet=False):
        self.prop = prop
        self.index = index
        self.tier = tier
        self.seed = seed
        self.rules = []
        self.quiet = quiet
        self.extra = {}
        self.t0 = time.time()

    def rule(self, suffix, statement, floor=0):
        r = Rule(self, '%s.%s' % (self.prop, suffix), statement, floor)
        self.rules.append(r)
        return r

    @property
    def thorough(self):
        return self.tier == 'thorough'

    def obligations(self):
        for r in self.rules:
            for o in r.obligations:
                yield o

    def finish_floors(self):
        for r in self.rules:
            if r.n < r.floor:
                r.undecided('<floor>', 'rule matched %d instance(s), fewer than the %d confirmed by hand: '
                            'the rule stopped matching (anchor moved or idiom changed)' % (r.n, r.floor))
            if r.n == 0 and r.floor == 0:
                r.undecided('<floor>', 'rule matched nothing')


def load_known():
    known, fixed = [], []
    if not os.path.exists(KNOWN_FILE):
        return known, fixed
    with open(KNOWN_FILE, encoding='utf-8') as f:
        for line in f:
            line = line.strip()
            if not line or line.startswith('#'):
                continue
            if line.startswith('known:'):
                body = line[len('known:'):].strip()
                fields = dict(p.split('=', 1) for p in body.split()[:2] if '=' in p)
                known.append({'property': fields.get('property'), 'key': fields.get('key'), 'text': body})
            elif line.startswith('fixed:'):
                body = line[len('fixed:'):].strip()
                fields = dict(p.split('=', 1) for p in body.split()[:1] if '=' in p)
                fixed.append({'property': fields.get('property'), 'text': body})
    return known, fixed


def write_replay(prop, o):
    os.makedirs(REPLAY_DIR, exist_ok=True)
    h = hashlib.sha1((o.key + '|' + (o.detail or '')).encode()).hexdigest()[:8]
    path = os.path.join(REPLAY_DIR, '%s-%s-%s.json' % (prop, o.rule.split('.', 1)[1].replace('/', '_'), h))
    with open(path, 'w', encoding='utf-8') as f:
        json.dump({'property': prop, 'rule': o.rule, 'construct': o.construct, 'loc': o.loc,
                   'detail': o.detail, 'expected': o.expected, 'found': o.found}, f, indent=1)
    return path


def finalize(ctx, explanation, not_decided, extra_assumptions=(), selftest=None, out=None, write=True):
    """Print the report, write evidence, return the exit code."""
    import sys
    out = out or sys.stdout
    ctx.finish_floors()
    known, fixed = load_known()
    known_keys = {k['key']: k for k in known if k['property'] == ctx.prop}
    n_viol = n_und = n_known = 0
    lines = []
    for r in ctx.rules:
        disc = sum(1 for o in r.obligations if o.status == OK)
        lines.append('rule=%s instances=%d discharged=%d  # %s' % (r.id, r.n, disc, r.statement))
        for note in r.notes:
            lines.append('  note: %s' % note)
    # unreviewed helpers that the normalisation pass could not inline: a difference found in the same file is not
    # "definite" (the construct may have moved into the helper), so it is reported as an analysis-error instead
    unreviewed_files = {}
    for q in getattr(idx0 := ctx.index, 'unreviewed', []) or []:
        fi = idx0.funcs.get(q)
        if fi is not None:
            unreviewed_files.setdefault(fi.module.relpath, []).append(q.rsplit('.', 1)[-1])
    unreviewed_q = [q for q in (getattr(idx0, 'unreviewed', []) or [])]
    for o in ctx.obligations():
        if o.status == VIOLATION and unreviewed_files:
            f = (o.loc or '').split(':')[0]
            # a finding ABOUT the unreviewed function itself (a new override analysed as a whole) is definite: the construct
            # of the obligation names that function
            about_it = any(q in (o.construct or '') or (o.construct or '').startswith(q[len('mitxgraders.'):] if q.startswith('mitxgraders.') else q)
                           for q in unreviewed_q)
            # function-granular: a finding located in a function that calls none of the un-inlined helpers of its file does not
            # depend on them (a finding at module level, or whose function cannot be determined, keeps the file-level caution)
            independent = False
            if f in unreviewed_files and not about_it:
                try:
                    line = int((o.loc or '').split(':')[1])
                    encl = None
                    for fi2 in idx0.funcs.values():
                        if fi2.module.relpath == f and fi2.node.lineno <= line <= (fi2.node.end_lineno or fi2.node.lineno):
                            if encl is None or fi2.node.lineno >= encl.node.lineno:
                                encl = fi2
                    if encl is not None:
                        import ast as _ast
                        called = set()
                        for n in _ast.walk(encl.node):
                            if isinstance(n, _ast.Call):
                                fn = n.func
                                called.add(fn.id if isinstance(fn, _ast.Name) else fn.attr if isinstance(fn, _ast.Attribute) else '')
                            elif isinstance(n, _ast.Attribute):
                                called.add(n.attr)       # bound-method values, properties
                            elif isinstance(n, _ast.Name):
                                called.add(n.id)
                        independent = not (called & set(unreviewed_files[f]))
                except (ValueError, IndexError):
                    independent = False
            if f in unreviewed_files and not about_it and not independent:
                o.status = UNDECIDED
                o.detail = 'not definite because unreviewed helper(s) %s in %s could not be inlined: %s' % (
                    ', '.join(sorted(set(unreviewed_files[f]))[:4]), f, o.detail)
    for o in ctx.obligations():
        if o.status == VIOLATION:
            if o.key in known_keys:
                n_known += 1
                lines.append('KNOWN-FINDING: property=%s %s' % (ctx.prop, known_keys[o.key]['text']))
                continue
            n_viol += 1
            path = write_replay(ctx.prop, o) if write else '<none>'
            lines.append('VIOLATION property=%s replay=%s' % (ctx.prop, path))
            lines.append('  %s  %s' % (o.loc, o.construct))
            lines.append('  rule %s: %s' % (o.rule, o.detail))
            if o.expected:
                lines.append('  expected: %s' % o.expected)
            if o.found:
                lines.append('  found:    %s' % o.found)
        elif o.status == UNDECIDED:
            n_und += 1
            lines.append('ANALYSIS-ERROR property=%s rule=%s construct=%s reason=%s %s'
                         % (ctx.prop, o.rule, o.construct, o.detail, o.loc))
    st_fail = 0
    if selftest:
        lines.append('selftest: mutants %d applicable, %d killed, %d skipped (anchor edited); benign %d, silent %d'
                     % (selftest['mutants_total'], selftest['mutants_killed'], selftest['mutants_skipped'],
                        selftest['benign_total'], selftest['benign_silent']))
        if 'seeded_changes_run' in selftest:
            lines.append('corpora: seeded changes %d run, %d reported; verified refactorings %d run, %d silent, %d analysis-error, %d patches not applicable'
                         % (selftest['seeded_changes_run'], selftest['seeded_changes_reported'], selftest['refactorings_run'],
                            selftest['refactorings_silent'], selftest['refactorings_analysis_error'], selftest['corpus_patches_not_applicable']))
            for n in selftest.get('corpus_notes', []):
                lines.append('  note: ' + n)
        for s in selftest.get('defects', []):
            st_fail += 1
            lines.append('ANALYSIS-ERROR property=%s rule=selftest reason=%s' % (ctx.prop, s))
    if not ctx.quiet:
        for l in lines:
            print(l, file=out)
    code = 1 if n_viol else (2 if (n_und or st_fail) else 0)
    obligations = [o for o in ctx.obligations() if o.status != NOTE]
    discharged = [o for o in obligations if o.status == OK]
    distinct = {o.key for o in obligations if o.nontrivial}
    idx = ctx.index
    samples = []
    seen_rules = set()
    for o in obligations:
        if o.rule not in seen_rules:
            seen_rules.add(o.rule)
            samples.append(o.as_dict())
    for o in obligations:
        if o.status != OK and o.as_dict() not in samples:
            samples.append(o.as_dict())
    coverage = {
        'explanation': explanation + ' NOT decided (value-level remainder): ' + not_decided,
        'evaluations': len(obligations),
        'distinct_nontrivial': len(distinct),
        'rule': 'one case per (rule, construct) obligation found in /repo on this run; non-trivial = its discharge needed '
                'at least one resolved cross-reference (call target, class hierarchy, def-use or CFG query); '
                'distinct = distinct (rule, construct) pairs',
        'obligations': len(obligations),
        'discharged': len(discharged),
        'samples': samples[:40],
        'rules': [{'id': r.id, 'statement': r.statement, 'instances': r.n, 'floor': r.floor,
                   'floor_met': r.n >= r.floor, 'notes': r.notes} for r in ctx.rules],
        'modules_parsed': len(idx.modules),
        'functions_indexed': len(idx.funcs),
        'classes_indexed': len(idx.classes),
        'known_findings_matched': n_known,
        'undecided': n_und,
        'exhaustive': False,
    }
    coverage.update(ctx.extra)
    if selftest:
        coverage.update({k: v for k, v in selftest.items() if k != 'defects'})
        coverage['selftest_defects'] = selftest.get('defects', [])
    ev = {
        'property_id': ctx.prop,
        'tier': ctx.tier,
        'seed': int(ctx.seed),
        'level': 'other',
        'coverage': coverage,
        'assumptions': COMMON_ASSUMPTIONS + list(extra_assumptions),
        'wall_s': round(time.time() - ctx.t0, 3),
        'violations': n_viol,
    }
    if write:
        os.makedirs(EVIDENCE_DIR, exist_ok=True)
        with open(os.path.join(EVIDENCE_DIR, '%s.json' % ctx.prop), 'w', encoding='utf-8') as f:
            json.dump(ev, f, indent=1, sort_keys=True)
            f.write('\n')
    return code, ev
