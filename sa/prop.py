"""Propositional comparison of two guard conditions over the complete truth table of their atoms.

A condition is read as a boolean combination (and / or / not, comparison chains, `x if c else y` is not read) of *atoms*: every
other sub-expression, taken as an opaque proposition identified by its canonical text.  Two relations between atoms are
known and used: an atom and its complement are one variable (`a != c` is `not a == c`, `x is not None` is `not x is None`,
`a not in b` is `not a in b`, `a >= b` is `not a < b`, `e % 2 == 1` is `not e % 2 == 0` -- the last for integers, which
is what the configuration schema guarantees where it is used), and `e == c1`, `e == c2` with different constants exclude
each other.  Nothing is evaluated: the data stays symbolic, only the truth values of the atoms are enumerated.

`implies(a, b)` / `equivalent(a, b)` return True when the relation holds for EVERY valuation (sound: ignoring further
relations between atoms only adds valuations), False when some valuation that respects the two known relations refutes
it (such a valuation may still be infeasible for reasons this module cannot see, so a False is a reason to fall back on
other evidence, not a proof of a difference), None when there are more than MAX_ATOMS atoms.
"""
import ast
import itertools

from .index import unparse

MAX_ATOMS = 16

_COMPLEMENT = {ast.NotEq: ast.Eq, ast.IsNot: ast.Is, ast.NotIn: ast.In, ast.GtE: ast.Lt, ast.LtE: ast.Gt}


class _Form(object):
    """('atom', key) | ('not', f) | ('and', [f]) | ('or', [f]) | ('const', bool)"""


def _cmp_atom(left, op, right, atoms):
    neg = False
    opt = type(op)
    if opt in _COMPLEMENT:
        opt = _COMPLEMENT[opt]
        neg = True
    # a > b  is  b < a
    if opt is ast.Gt:
        left, right, opt = right, left, ast.Lt
    # e % 2 == 1  is  not e % 2 == 0
    if opt is ast.Eq and isinstance(right, ast.Constant) and right.value in (0, 1) and isinstance(left, ast.BinOp) \
            and isinstance(left.op, ast.Mod) and isinstance(left.right, ast.Constant) and left.right.value == 2:
        if right.value == 1:
            neg = not neg
        key = ('cmp', unparse(left), 'Eq', '0')
        atoms.setdefault(key, None)
        f = ('atom', key)
        return ('not', f) if neg else f
    if opt is ast.Eq and isinstance(left, ast.Constant) and not isinstance(right, ast.Constant):
        left, right = right, left
    key = ('cmp', unparse(left), opt.__name__, unparse(right))
    if opt is ast.Eq and isinstance(right, ast.Constant):
        atoms[key] = (unparse(left), repr(right.value))
    else:
        atoms.setdefault(key, None)
    f = ('atom', key)
    return ('not', f) if neg else f


def formula(expr, atoms):
    if isinstance(expr, ast.Constant) and isinstance(expr.value, bool):
        return ('const', expr.value)
    if isinstance(expr, ast.BoolOp):
        return ('and' if isinstance(expr.op, ast.And) else 'or', [formula(v, atoms) for v in expr.values])
    if isinstance(expr, ast.UnaryOp) and isinstance(expr.op, ast.Not):
        return ('not', formula(expr.operand, atoms))
    if isinstance(expr, ast.Compare):
        parts = []
        left = expr.left
        for op, right in zip(expr.ops, expr.comparators):
            parts.append(_cmp_atom(left, op, right, atoms))
            left = right
        return parts[0] if len(parts) == 1 else ('and', parts)
    key = ('expr', unparse(expr))
    atoms.setdefault(key, None)
    return ('atom', key)


def _ev(f, val):
    k = f[0]
    if k == 'const':
        return f[1]
    if k == 'atom':
        return val[f[1]]
    if k == 'not':
        return not _ev(f[1], val)
    if k == 'and':
        return all(_ev(x, val) for x in f[1])
    return any(_ev(x, val) for x in f[1])


def _valuations(atoms):
    keys = sorted(atoms, key=repr)
    if len(keys) > MAX_ATOMS:
        return None
    groups = {}
    for k in keys:
        if atoms[k] is not None:
            groups.setdefault(atoms[k][0], []).append(k)

    def gen():
        for bits in itertools.product((False, True), repeat=len(keys)):
            val = dict(zip(keys, bits))
            if any(sum(1 for k in ks if val[k]) > 1 for ks in groups.values()):
                continue        # e == c1 and e == c2
            yield val
    return gen()


def _as_expr(e):
    if isinstance(e, str):
        return ast.parse(e, mode='eval').body
    return e


def implies(a, b, assume=()):
    """a -> b for every valuation (of those satisfying every condition in `assume`)."""
    atoms = {}
    fa, fb = formula(_as_expr(a), atoms), formula(_as_expr(b), atoms)
    fs = [formula(_as_expr(x), atoms) for x in assume]
    vals = _valuations(atoms)
    if vals is None:
        return None
    for val in vals:
        if all(_ev(f, val) for f in fs) and _ev(fa, val) and not _ev(fb, val):
            return False
    return True


def equivalent(a, b, assume=()):
    x = implies(a, b, assume)
    y = implies(b, a, assume)
    if x is None or y is None:
        return None
    return x and y


def disjunction(exprs):
    exprs = [_as_expr(e) for e in exprs]
    if not exprs:
        return ast.Constant(value=False)
    return exprs[0] if len(exprs) == 1 else ast.BoolOp(op=ast.Or(), values=exprs)
