"""Run one property's rules on /repo (or on an overlay) and produce the report."""
import traceback

from .index import Index, AnalysisError
from .report import Context, finalize
from . import props


def run_rules(prop, tier='quick', overlay=None, root=None, seed=0, quiet=True, related=True):
    """Build the index, run the property's rules; returns the Context (no evidence written)."""
    mod = props.load(prop)
    idx = Index(root=root, overlay=overlay)
    from . import normalize
    idx.normalization = normalize.normalize(idx)
    ctx = Context(prop, idx, tier=tier, seed=seed, quiet=quiet)
    if idx.normalization.get('inlined') or idx.unreviewed:
        ctx.extra['unreviewed_helpers_inlined'] = idx.normalization.get('inlined', {})
        ctx.extra['unreviewed_helpers_left'] = list(idx.unreviewed)
    try:
        mod.check(ctx)
    except AnalysisError as e:
        r = ctx.rule('ENGINE', 'analysis could not be completed')
        r.undecided('<engine>', str(e))
    if related:
        from .related import RELATED
        from .report import Rule
        for other, prefixes in sorted(RELATED.get(prop, {}).items()):
            try:
                omod = props.load(other)
            except ImportError:
                continue
            sub = Context(other, idx, tier=tier, seed=seed, quiet=True)
            try:
                omod.check(sub)
            except AnalysisError as e:
                r = ctx.rule('REL.%s.ENGINE' % other, 'related rules of %s could not be run' % other)
                r.undecided('<engine>', str(e))
                continue
            for orule in sub.rules:
                suffix = orule.id.split('.', 1)[1]
                if not suffix.startswith(tuple(prefixes)):
                    continue
                nr = Rule(ctx, '%s.REL.%s' % (prop, orule.id), '[shared with %s] %s' % (other, orule.statement), orule.floor)
                for o in orule.obligations:
                    o.rule = nr.id
                    nr.obligations.append(o)
                nr.notes = list(orule.notes)
                ctx.rules.append(nr)
    return ctx, mod


def violations_of(ctx):
    ctx.finish_floors()
    return [o for o in ctx.obligations() if o.status == 'violation'], \
           [o for o in ctx.obligations() if o.status == 'undecided']


def check(prop, tier='quick', seed=0, root=None, overlay=None, write=True, jobs=16):
    from . import cfg as cfgmod
    qlog = cfgmod.start_query_log() if tier == 'thorough' else None
    ctx, mod = run_rules(prop, tier, overlay=overlay, root=root, seed=seed, quiet=False)
    cfgmod.QUERY_LOG = None
    selftest = None
    if tier == 'thorough':
        checked, truncated, mismatches = cfgmod.crosscheck_queries(qlog)
        ctx.extra['path_queries_crosschecked'] = checked
        ctx.extra['path_queries_truncated'] = truncated
        if mismatches:
            r = ctx.rule('ENGINE.crosscheck', 'reachability-based path queries agree with bounded path enumeration')
            for m in mismatches:
                r.undecided('<engine>', m)
        from . import selftest as st
        selftest = st.run(prop, mod, root=root, jobs=jobs)
        if hasattr(mod, 'thorough'):
            try:
                mod.thorough(ctx)
            except AnalysisError as e:
                r = ctx.rule('ENGINE.thorough', 'thorough-tier analysis could not be completed')
                r.undecided('<engine>', str(e))
    code, ev = finalize(ctx, mod.EXPLANATION, mod.NOT_DECIDED, getattr(mod, 'ASSUMPTIONS', ()),
                        selftest=selftest, write=write)
    return code
