"""Run one property's rules on /repo (or on an overlay) and produce the report."""
import traceback

from .index import Index, AnalysisError
from .report import Context, finalize
from . import props


def run_rules(prop, tier='quick', overlay=None, root=None, seed=0, quiet=True):
    """Build the index, run the property's rules; returns the Context (no evidence written)."""
    mod = props.load(prop)
    idx = Index(root=root, overlay=overlay)
    from . import normalize
    idx.normalization = normalize.normalize(idx)
    ctx = Context(prop, idx, tier=tier, seed=seed, quiet=quiet)
    if idx.normalization.get('inlined') or idx.unreviewed:
        ctx.extra['unreviewed_helpers_inlined'] = idx.normalization.get('inlined', {})
        ctx.extra['unreviewed_helpers_left'] = list(idx.unreviewed)
    try:
        mod.check(ctx)
    except AnalysisError as e:
        r = ctx.rule('ENGINE', 'analysis could not be completed')
        r.undecided('<engine>', str(e))
    return ctx, mod


def violations_of(ctx):
    ctx.finish_floors()
    return [o for o in ctx.obligations() if o.status == 'violation'], \
           [o for o in ctx.obligations() if o.status == 'undecided']


def check(prop, tier='quick', seed=0, root=None, overlay=None, write=True, jobs=16):
    from . import cfg as cfgmod
    qlog = cfgmod.start_query_log() if tier == 'thorough' else None
    ctx, mod = run_rules(prop, tier, overlay=overlay, root=root, seed=seed, quiet=False)
    cfgmod.QUERY_LOG = None
    selftest = None
    if tier == 'thorough':
        checked, truncated, mismatches = cfgmod.crosscheck_queries(qlog)
        ctx.extra['path_queries_crosschecked'] = checked
        ctx.extra['path_queries_truncated'] = truncated
        if mismatches:
            r = ctx.rule('ENGINE.crosscheck', 'reachability-based path queries agree with bounded path enumeration')
            for m in mismatches:
                r.undecided('<engine>', m)
        from . import selftest as st
        selftest = st.run(prop, mod, root=root, jobs=jobs)
        if hasattr(mod, 'thorough'):
            try:
                mod.thorough(ctx)
            except AnalysisError as e:
                r = ctx.rule('ENGINE.thorough', 'thorough-tier analysis could not be completed')
                r.undecided('<engine>', str(e))
    code, ev = finalize(ctx, mod.EXPLANATION, mod.NOT_DECIDED, getattr(mod, 'ASSUMPTIONS', ()),
                        selftest=selftest, write=write)
    return code
