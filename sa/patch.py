"""Apply a unified diff (git format) to in-memory sources: {relpath: text} -> {relpath: new text}.

Used by the thorough tier to run the checks against the filed corpora (seeded breaking changes and
behaviour-preserving refactorings) as overlays, without touching /repo or creating scratch copies.
A hunk whose context does not match (the file was edited since the patch was filed) makes the whole
patch inapplicable (returns None), which the caller treats as "skipped".
"""
import os
import re

HUNK = re.compile(r'^@@ -(\d+)(?:,(\d+))? \+(\d+)(?:,(\d+))? @@')


def parse(diff_text):
    files = []
    cur = None
    lines = diff_text.splitlines()
    i = 0
    while i < len(lines):
        l = lines[i]
        if l.startswith('diff --git '):
            cur = {'old': None, 'new': None, 'hunks': []}
            files.append(cur)
        elif l.startswith('--- ') and cur is not None:
            p = l[4:].strip()
            cur['old'] = None if p == '/dev/null' else p[2:] if p.startswith(('a/', 'b/')) else p
        elif l.startswith('+++ ') and cur is not None:
            p = l[4:].strip()
            cur['new'] = None if p == '/dev/null' else p[2:] if p.startswith(('a/', 'b/')) else p
        elif l.startswith('@@') and cur is not None:
            m = HUNK.match(l)
            if not m:
                return None
            start = int(m.group(1))
            hunk = {'start': start, 'lines': []}
            i += 1
            while i < len(lines) and not lines[i].startswith(('@@', 'diff --git ')):
                if lines[i].startswith('\\'):
                    i += 1
                    continue
                hunk['lines'].append(lines[i])
                i += 1
            cur['hunks'].append(hunk)
            continue
        i += 1
    return files


def apply(diff_text, read):
    """read(relpath) -> text or None.  Returns {relpath: new text} or None if the patch does not apply."""
    files = parse(diff_text)
    if files is None:
        return None
    out = {}
    for f in files:
        path = f['new'] or f['old']
        if path is None:
            return None
        if f['old'] is None:
            src = []
        else:
            text = read(f['old'])
            if text is None:
                return None
            src = text.split('\n')
        result = []
        pos = 0
        for h in f['hunks']:
            old_block = [l[1:] for l in h['lines'] if l[:1] in (' ', '-') or l == '']
            new_block = [l[1:] for l in h['lines'] if l[:1] in (' ', '+') or l == '']
            at = _locate(src, old_block, max(h['start'] - 1, 0), pos)
            if at is None:
                return None
            result.extend(src[pos:at])
            result.extend(new_block)
            pos = at + len(old_block)
        result.extend(src[pos:])
        out[path] = '\n'.join(result)
    return out


def _locate(src, block, guess, lo):
    n = len(block)
    if n == 0:
        return max(guess, lo)
    for delta in range(0, 400):
        for at in (guess + delta, guess - delta):
            if at < lo or at + n > len(src):
                continue
            if src[at:at + n] == block:
                return at
    return None


def corpus(verif, kind):
    """Yield (id, meta, diff_text) for /verif/seeded or /verif/benign."""
    import json
    base = os.path.join(verif, kind)
    if not os.path.isdir(base):
        return
    for name in sorted(os.listdir(base)):
        d = os.path.join(base, name)
        pf, mf = os.path.join(d, 'patch.diff'), os.path.join(d, 'meta.json')
        if os.path.isfile(pf) and os.path.isfile(mf):
            with open(mf) as f:
                meta = json.load(f)
            with open(pf, encoding='utf-8') as f:
                yield name, meta, f.read()
