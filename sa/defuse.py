"""Path-sensitive definite-assignment over the complete domain of a function's *stable guard atoms*.

Question decided: is there a use of a local variable that is reached, with the variable unbound, along a path
whose every branching decision is fixed by the values of the function's own parameters?  Such a path is feasible
for some caller (every combination of flag values / argument types is a legal call of a public function), so the
use raises UnboundLocalError there: a *definite* finding.  Everything else (paths through loops, through tests that
read anything but never-reassigned parameters, through exceptional edges) is not explored: absence of a finding
is not a proof of definite assignment, and nothing is reported for such paths.

Stable atoms are `p` (truthiness), `p is None` and `isinstance(p, C)` for a parameter `p` that is never stored to in the
function; tests are evaluated three-valued over a valuation of the atoms (and/or/not).  The domain enumerated is
the complete set of valuations (2^k, k <= MAX_ATOMS), minus those that make two isinstance atoms of one parameter
with different classes true at once or make `p is None` true together with `p` / `isinstance(p, C)`; the data
itself stays symbolic.
"""
import ast
import itertools

from .cfg import cfg_of
from .index import unparse

MAX_ATOMS = 8


class Finding(object):
    def __init__(self, name, node, valuation, path):
        self.name = name
        self.node = node          # ast node of the use
        self.valuation = valuation
        self.path = path          # cfg nodes

    def describe(self):
        val = ', '.join('%s=%s' % (k, v) for k, v in sorted(self.valuation.items())) or 'any arguments'
        return 'with %s' % val


def _stored_names(fn):
    out = set()
    for n in _walk_scope(fn):
        if isinstance(n, ast.Name) and isinstance(n.ctx, (ast.Store, ast.Del)):
            out.add(n.id)
        elif isinstance(n, ast.ExceptHandler) and n.name:
            out.add(n.name)
        elif isinstance(n, (ast.FunctionDef, ast.AsyncFunctionDef, ast.ClassDef)) and n is not fn:
            out.add(n.name)
        elif isinstance(n, (ast.Import, ast.ImportFrom)):
            for a in n.names:
                out.add((a.asname or a.name).split('.')[0])
    return out


def _walk_scope(fn):
    """Nodes of fn's own scope: nested function/class/lambda bodies and comprehension scopes are not entered
    (the def/class statement itself is yielded)."""
    stack = list(fn.body) if isinstance(fn.body, list) else [fn.body]
    while stack:
        n = stack.pop()
        yield n
        if isinstance(n, (ast.FunctionDef, ast.AsyncFunctionDef, ast.ClassDef, ast.Lambda)):
            # decorators / defaults are evaluated in this scope
            for d in getattr(n, 'decorator_list', []):
                stack.append(d)
            args = getattr(n, 'args', None)
            if args is not None:
                stack.extend(args.defaults)
                stack.extend(d for d in args.kw_defaults if d is not None)
            continue
        if isinstance(n, (ast.ListComp, ast.SetComp, ast.DictComp, ast.GeneratorExp)):
            # only the first iterable is evaluated in the enclosing scope
            stack.append(n.generators[0].iter)
            continue
        stack.extend(ast.iter_child_nodes(n))


def _declared_outer(fn):
    out = set()
    for n in _walk_scope(fn):
        if isinstance(n, (ast.Global, ast.Nonlocal)):
            out.update(n.names)
    return out


def _params(fn):
    a = fn.args
    names = [x.arg for x in a.posonlyargs + a.args + a.kwonlyargs]
    if a.vararg:
        names.append(a.vararg.arg)
    if a.kwarg:
        names.append(a.kwarg.arg)
    return names


def _atom_key(e, stable):
    """Key of a stable atom, or None."""
    if isinstance(e, ast.Name) and e.id in stable:
        return ('truth', e.id, '')
    if isinstance(e, ast.Call) and isinstance(e.func, ast.Name) and e.func.id == 'isinstance' and len(e.args) == 2 \
            and not e.keywords and isinstance(e.args[0], ast.Name) and e.args[0].id in stable:
        return ('isinstance', e.args[0].id, unparse(e.args[1]))
    return None


def _none_test(e, stable):
    """(param, True) for `p is None`, (param, False) for `p is not None`, else None."""
    if isinstance(e, ast.Compare) and len(e.ops) == 1 and isinstance(e.ops[0], (ast.Is, ast.IsNot)) \
            and isinstance(e.left, ast.Name) and e.left.id in stable \
            and isinstance(e.comparators[0], ast.Constant) and e.comparators[0].value is None:
        return e.left.id, isinstance(e.ops[0], ast.Is)
    return None


def _atoms_of(test, stable, out):
    if isinstance(test, ast.BoolOp):
        for v in test.values:
            _atoms_of(v, stable, out)
    elif isinstance(test, ast.UnaryOp) and isinstance(test.op, ast.Not):
        _atoms_of(test.operand, stable, out)
    else:
        k = _atom_key(test, stable)
        nt = _none_test(test, stable)
        if nt is not None:
            k = ('isnone', nt[0], '')
        if k is not None and k not in out:
            out.append(k)


def _eval3(test, stable, val):
    """Three-valued truth of a test under a valuation of atoms (None = unknown)."""
    if isinstance(test, ast.Constant):
        return bool(test.value)
    if isinstance(test, ast.BoolOp):
        vs = [_eval3(v, stable, val) for v in test.values]
        if isinstance(test.op, ast.And):
            if any(v is False for v in vs):
                return False
            return True if all(v is True for v in vs) else None
        if any(v is True for v in vs):
            return True
        return False if all(v is False for v in vs) else None
    if isinstance(test, ast.UnaryOp) and isinstance(test.op, ast.Not):
        v = _eval3(test.operand, stable, val)
        return None if v is None else (not v)
    k = _atom_key(test, stable)
    if k is not None and k in val:
        return val[k]
    nt = _none_test(test, stable)
    if nt is not None and ('isnone', nt[0], '') in val:
        v = val[('isnone', nt[0], '')]
        return v if nt[1] else (not v)
    return None


def _loads_and_stores(cnode):
    """(names loaded, names stored, names deleted) by the head of a CFG node, in this scope."""
    a = cnode.ast
    loads, stores, dels = [], [], []
    if a is None:
        return loads, stores, dels
    kind = cnode.kind
    if kind == 'test':
        roots = [a.test]
    elif kind == 'for':
        roots = [a.iter]
        for n in ast.walk(a.target):
            if isinstance(n, ast.Name):
                stores.append(n)
    elif kind == 'with':
        roots = [i.context_expr for i in a.items]
        for i in a.items:
            if i.optional_vars is not None:
                for n in ast.walk(i.optional_vars):
                    if isinstance(n, ast.Name):
                        stores.append(n)
    elif kind == 'handler':
        roots = [a.type] if a.type is not None else []
        if a.name:
            stores.append(ast.Name(id=a.name, ctx=ast.Store()))
    elif kind == 'stmt':
        if isinstance(a, (ast.FunctionDef, ast.AsyncFunctionDef, ast.ClassDef)):
            roots = list(a.decorator_list)
            stores.append(ast.Name(id=a.name, ctx=ast.Store()))
        elif isinstance(a, (ast.Import, ast.ImportFrom)):
            roots = []
            for al in a.names:
                stores.append(ast.Name(id=(al.asname or al.name).split('.')[0], ctx=ast.Store()))
        else:
            roots = [a]
    else:
        roots = []
    for r in roots:
        fake = ast.Module(body=[], type_ignores=[])
        fake.body = [r]
        for n in _walk_scope(fake):
            if isinstance(n, ast.Name):
                if isinstance(n.ctx, ast.Load):
                    loads.append(n)
                elif isinstance(n.ctx, ast.Store):
                    stores.append(n)
                elif isinstance(n.ctx, ast.Del):
                    dels.append(n)
    # augmented assignment reads its target
    if kind == 'stmt' and isinstance(a, ast.AugAssign) and isinstance(a.target, ast.Name):
        loads.append(a.target)
    return loads, stores, dels


def unbound_uses(fn):
    """Definite unbound-local uses of function node `fn`.  Returns (findings, stats)."""
    params = _params(fn)
    stored = _stored_names(fn)
    outer = _declared_outer(fn)
    local = (stored - outer) - set(params)
    stable = set(params) - stored
    stats = {'locals': len(local), 'atoms': 0, 'valuations': 0, 'states': 0}
    if not local:
        return [], stats
    cfg = cfg_of(fn)
    atoms = []
    for n in cfg.nodes:
        if n.kind == 'test' and n.ast is not None:
            _atoms_of(n.ast.test, stable, atoms)
    atoms = atoms[:MAX_ATOMS]
    stats['atoms'] = len(atoms)
    info = {}
    for n in cfg.nodes:
        info[n] = _loads_and_stores(n)
    findings = {}
    for bits in itertools.product((False, True), repeat=len(atoms)):
        val = dict(zip(atoms, bits))
        # two isinstance atoms of one parameter with different classes cannot both be assumed true
        seen_true = {}
        feasible = True
        for (kind, p, c), b in val.items():
            if kind == 'isinstance' and b:
                if p in seen_true and seen_true[p] != c:
                    feasible = False
                seen_true[p] = c
        for (kind, p, c), b in val.items():
            # None is falsy and an instance of nothing the code tests for
            if kind == 'isnone' and b and any(k2 in ('truth', 'isinstance') and p2 == p and b2 for (k2, p2, _), b2 in val.items()):
                feasible = False
        if not feasible:
            continue
        stats['valuations'] += 1
        start = (cfg.entry, frozenset(params))
        stack = [(start, (cfg.entry,))]
        seen = set()
        while stack:
            (node, bound), path = stack.pop()
            if (node, bound) in seen:
                continue
            seen.add((node, bound))
            stats['states'] += 1
            loads, stores, dels = info[node]
            for l in loads:
                if l.id in local and l.id not in bound:
                    key = (l.id, getattr(l, 'lineno', 0))
                    rank = sum(1 for b in val.values() if b)
                    if key not in findings or rank > findings[key][0]:
                        shown = {('%s' % p if k == 'truth' else '%s is None' % p if k == 'isnone' else 'isinstance(%s, %s)' % (p, c)): b
                                 for (k, p, c), b in val.items()}
                        findings[key] = (rank, Finding(l.id, l, shown, path))
            if node.kind in ('for',):
                continue      # zero-or-more iterations: not decided by the parameters
            nb = bound
            if stores or dels:
                nb = set(bound)
                nb.update(s.id for s in stores)
                nb.difference_update(d.id for d in dels)
                nb = frozenset(nb)
            if node.kind == 'test':
                t = _eval3(node.ast.test, stable, val)
                if t is None:
                    continue
                want = 'true' if t else 'false'
                for s, lab in node.succs:
                    if lab == want:
                        stack.append(((s, nb), path + (s,)))
                continue
            if node.kind == 'stmt' and isinstance(node.ast, (ast.Return, ast.Raise)):
                continue
            for s, lab in node.succs:
                if lab in ('next', 'break', 'continue'):
                    stack.append(((s, nb), path + (s,)))
    return [f for _, f in findings.values()], stats
