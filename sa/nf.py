"""E6: canonical forms, pattern matching with wildcards, difference classification,
forward substitution and decision trees.

Patterns are Python source strings.  Identifiers that start with an underscore
followed by an upper-case letter (``_X``, ``_TOL``) are wildcards that bind to any
expression (the same wildcard must bind to structurally equal expressions);
``__`` matches anything without binding.  Matching is done on canonicalised trees:
comparison direction and negations are normalised, commutative operands are tried in
every order, numeric constants compare by value.

`classify(pattern, node)` compares a tree with a reference and answers
  MATCH                     -- equal modulo the rewrite theory
  ('DIFF', description)     -- same skeleton, exactly one differing atom, and the
                               difference belongs to the closed list of
                               behaviour-changing classes of DESIGN.md E6
  UNRECOGNISED              -- anything else
"""
import ast
import copy
import itertools

from .index import unparse, dump, AnalysisError, clone

MATCH = 'MATCH'
UNRECOGNISED = 'UNRECOGNISED'

COMMUTATIVE_BIN = (ast.Add, ast.Mult, ast.BitAnd, ast.BitOr, ast.BitXor)
COMMUTATIVE_CMP = (ast.Eq, ast.NotEq)
NEGATE_CMP = {ast.Lt: ast.GtE, ast.GtE: ast.Lt, ast.Gt: ast.LtE, ast.LtE: ast.Gt,
              ast.Eq: ast.NotEq, ast.NotEq: ast.Eq, ast.Is: ast.IsNot, ast.IsNot: ast.Is,
              ast.In: ast.NotIn, ast.NotIn: ast.In}
FLIP_CMP = {ast.Gt: ast.Lt, ast.GtE: ast.LtE}

CONFUSABLE_CALLEES = [
    {'min', 'max'}, {'any', 'all'}, {'triu', 'tril'}, {'match', 'search', 'fullmatch'},
    {'floor', 'ceil', 'round'}, {'argmax', 'argmin'}, {'real', 'imag'}, {'sin', 'cos'},
    {'sum', 'prod'}, {'append', 'insert'}, {'union', 'intersection', 'difference'},
    {'lower', 'upper'}, {'strip', 'lstrip', 'rstrip'}, {'issubset', 'issuperset'},
    {'transpose', 'conj', 'conjugate'},
]


def is_wild(name):
    return name == '__' or (len(name) > 1 and name[0] == '_' and name[1].isupper())


def pat(src, mode='eval'):
    """Parse a pattern: an expression (default) or, with mode='exec', a statement list."""
    tree = ast.parse(src.strip(), mode=mode)
    if mode == 'eval':
        return canon(tree.body)
    return [canon(s) for s in tree.body]


# ---------------------------------------------------------------- canonicalisation
class _Canon(ast.NodeTransformer):
    def visit_Compare(self, node):
        self.generic_visit(node)
        if len(node.ops) > 1:
            parts = []
            left = node.left
            for op, right in zip(node.ops, node.comparators):
                parts.append(self._orient(ast.Compare(left=left, ops=[op], comparators=[right])))
                left = right
            return ast.BoolOp(op=ast.And(), values=parts)
        return self._orient(node)

    @staticmethod
    def _orient(node):
        op = node.ops[0]
        if type(op) in FLIP_CMP:
            return ast.Compare(left=node.comparators[0], ops=[FLIP_CMP[type(op)]()], comparators=[node.left])
        return node

    def visit_UnaryOp(self, node):
        self.generic_visit(node)
        if isinstance(node.op, ast.Not):
            return negate(node.operand)
        if isinstance(node.op, ast.USub) and isinstance(node.operand, ast.Constant) \
                and isinstance(node.operand.value, (int, float, complex)) \
                and not isinstance(node.operand.value, bool):
            return ast.Constant(value=-node.operand.value)
        if isinstance(node.op, ast.UAdd):
            return node.operand
        return node

    def visit_Call(self, node):
        self.generic_visit(node)
        if isinstance(node.func, ast.Name) and node.func.id == 'bool' and len(node.args) == 1 and not node.keywords:
            return node.args[0]
        return node

    def visit_BoolOp(self, node):
        self.generic_visit(node)
        vals = []
        for v in node.values:
            if isinstance(v, ast.BoolOp) and type(v.op) is type(node.op):
                vals.extend(v.values)
            else:
                vals.append(v)
        node.values = vals
        return node

    def visit_AugAssign(self, node):
        self.generic_visit(node)
        tgt_load = clone(node.target)
        for n in ast.walk(tgt_load):
            if hasattr(n, 'ctx'):
                n.ctx = ast.Load()
        return ast.Assign(targets=[node.target], value=ast.BinOp(left=tgt_load, op=node.op, right=node.value),
                          lineno=getattr(node, 'lineno', 0))

    def visit_Expr(self, node):
        self.generic_visit(node)
        return node


def negate(expr):
    """Canonical negation of a (canonical) boolean expression."""
    if isinstance(expr, ast.Compare) and len(expr.ops) == 1 and type(expr.ops[0]) in NEGATE_CMP:
        new = ast.Compare(left=expr.left, ops=[NEGATE_CMP[type(expr.ops[0])]()], comparators=expr.comparators)
        return _Canon._orient(new)
    if isinstance(expr, ast.UnaryOp) and isinstance(expr.op, ast.Not):
        return expr.operand
    if isinstance(expr, ast.BoolOp):
        other = ast.Or() if isinstance(expr.op, ast.And) else ast.And()
        return ast.BoolOp(op=other, values=[negate(v) for v in expr.values])
    if isinstance(expr, ast.Constant) and isinstance(expr.value, bool):
        return ast.Constant(value=not expr.value)
    return ast.UnaryOp(op=ast.Not(), operand=expr)


def canon(node):
    node = clone(node)
    out = _Canon().visit(node)
    ast.fix_missing_locations(out) if isinstance(out, ast.AST) and hasattr(out, 'lineno') else None
    return out


# ------------------------------------------------------------------------ matching
def _const_eq(a, b):
    if isinstance(a, bool) or isinstance(b, bool):
        return type(a) is type(b) and a == b
    if isinstance(a, (int, float, complex)) and isinstance(b, (int, float, complex)):
        return a == b
    return type(a) is type(b) and a == b


class Matcher(object):
    """Structural matcher. `mismatches` collects (pattern_sub, node_sub, where) for the best attempt."""

    def __init__(self, collect=False):
        self.collect = collect

    def match(self, p, n, binds=None):
        binds = {} if binds is None else binds
        ok = self._m(p, n, binds)
        return binds if ok else None

    def _m(self, p, n, b):
        if isinstance(p, ast.Name) and is_wild(p.id):
            if p.id == '__':
                return True
            if p.id in b:
                return equal(b[p.id], n)
            b[p.id] = n
            return True
        if isinstance(p, ast.Constant) and isinstance(p.value, str) and is_wild(p.value) and isinstance(n, ast.AST):
            # a string constant used as wildcard (for dict keys etc.)
            if p.value == '__':
                return True
            if p.value in b:
                return equal(b[p.value], n)
            b[p.value] = n
            return True
        if isinstance(p, list):
            if not isinstance(n, list) or len(p) != len(n):
                return False
            return all(self._m(x, y, b) for x, y in zip(p, n))
        if not isinstance(p, ast.AST):
            return p == n
        if isinstance(p, ast.Constant):
            return isinstance(n, ast.Constant) and _const_eq(p.value, n.value)
        if type(p) is not type(n):
            return False
        if isinstance(p, ast.BinOp) and type(p.op) is type(n.op) and isinstance(p.op, COMMUTATIVE_BIN):
            return self._either(b, [(p.left, n.left), (p.right, n.right)], [(p.left, n.right), (p.right, n.left)])
        if isinstance(p, ast.Compare) and len(p.ops) == 1 and len(n.ops) == 1 \
                and type(p.ops[0]) is type(n.ops[0]) and isinstance(p.ops[0], COMMUTATIVE_CMP):
            return self._either(b, [(p.left, n.left), (p.comparators[0], n.comparators[0])],
                                [(p.left, n.comparators[0]), (p.comparators[0], n.left)])
        if isinstance(p, ast.BoolOp) and type(p.op) is type(n.op):
            if len(p.values) != len(n.values):
                return False
            if len(p.values) <= 4:
                for perm in itertools.permutations(n.values):
                    trial = dict(b)
                    if all(self._m(x, y, trial) for x, y in zip(p.values, perm)):
                        b.clear()
                        b.update(trial)
                        return True
                return False
        if isinstance(p, ast.Attribute):
            return p.attr == n.attr and self._m(p.value, n.value, b)
        if isinstance(p, ast.Name):
            return p.id == n.id
        if isinstance(p, ast.Call):
            if not self._m(p.func, n.func, b):
                return False
            if len(p.args) == 1 and isinstance(p.args[0], ast.Starred) and isinstance(p.args[0].value, ast.Name) \
                    and p.args[0].value.id == '__':
                return True     # f(*__) matches any argument list
            if len(p.args) != len(n.args) or len(p.keywords) != len(n.keywords):
                return False
            if not all(self._m(x, y, b) for x, y in zip(p.args, n.args)):
                return False
            pk = sorted(p.keywords, key=lambda k: k.arg or '')
            nk = sorted(n.keywords, key=lambda k: k.arg or '')
            return all(x.arg == y.arg and self._m(x.value, y.value, b) for x, y in zip(pk, nk))
        for field in p._fields:
            if field in ('ctx', 'type_comment', 'kind', 'lineno', 'col_offset', 'end_lineno', 'end_col_offset'):
                continue
            pv = getattr(p, field, None)
            nv = getattr(n, field, None)
            if isinstance(pv, list):
                if not isinstance(nv, list) or len(pv) != len(nv):
                    return False
                for x, y in zip(pv, nv):
                    if isinstance(x, ast.AST) or isinstance(x, list):
                        if not self._m(x, y, b):
                            return False
                    elif x != y:
                        return False
            elif isinstance(pv, ast.AST):
                if nv is None or not self._m(pv, nv, b):
                    return False
            else:
                if isinstance(pv, (ast.operator, ast.cmpop, ast.unaryop, ast.boolop)):
                    if type(pv) is not type(nv):
                        return False
                elif pv != nv:
                    if pv is None and nv is None:
                        continue
                    return False
        return True

    def _either(self, b, first, second):
        for pairs in (first, second):
            trial = dict(b)
            if all(self._m(x, y, trial) for x, y in pairs):
                b.clear()
                b.update(trial)
                return True
        return False


def match(p, n, binds=None):
    if isinstance(p, str):
        p = pat(p)
    return Matcher().match(p, canon(n) if isinstance(n, ast.AST) else n, binds)


def equal(a, b):
    """Structural equality modulo the canonical rewrite theory (no wildcards)."""
    if isinstance(a, ast.AST) and isinstance(b, ast.AST):
        return Matcher()._m(_freeze(a), b, {})
    return a == b


def _freeze(node):
    return node


def find_all(p, root, own_only=False):
    """All (node, binds) under root (canonicalised on the fly) matching pattern p."""
    if isinstance(p, str):
        p = pat(p)
    out = []
    for n in ast.walk(root):
        if isinstance(n, ast.expr) or isinstance(n, ast.stmt):
            try:
                c = canon(n)
            except Exception:
                continue
            b = Matcher().match(p, c)
            if b is not None:
                out.append((n, b))
    return out


# ------------------------------------------------------------------ differences
def differences(p, n, path='', out=None, binds=None):
    """List of minimal structural differences between pattern p and canonical node n."""
    out = [] if out is None else out
    binds = {} if binds is None else binds
    if isinstance(p, ast.Name) and is_wild(p.id):
        if p.id != '__':
            if p.id in binds and not equal(binds[p.id], n):
                out.append(('rebinding', p, n, path, 'wildcard %s bound to `%s` but found `%s`'
                            % (p.id, unparse(binds[p.id]), unparse(n))))
            binds.setdefault(p.id, n)
        return out
    if Matcher().match(p, n, dict(binds)) is not None:
        Matcher().match(p, n, binds)
        return out
    if isinstance(p, ast.Constant) and isinstance(n, ast.Constant):
        out.append(('literal', p, n, path, 'literal %r replaced by %r' % (p.value, n.value)))
        return out
    # unary minus / not added or dropped
    if isinstance(n, ast.UnaryOp) and not isinstance(p, ast.UnaryOp) and Matcher().match(p, n.operand, dict(binds)) is not None:
        out.append(('sign' if isinstance(n.op, ast.USub) else 'negation', p, n, path,
                    'extra unary %s' % type(n.op).__name__))
        return out
    if isinstance(p, ast.UnaryOp) and not isinstance(n, ast.UnaryOp) and Matcher().match(p.operand, n, dict(binds)) is not None:
        out.append(('sign' if isinstance(p.op, ast.USub) else 'negation', p, n, path,
                    'missing unary %s' % type(p.op).__name__))
        return out
    if type(p) is not type(n):
        # a dropped arithmetic operator: pattern a op b, found a (or b)
        if isinstance(p, ast.BinOp):
            for side, keep in (('left', p.left), ('right', p.right)):
                if Matcher().match(keep, n, dict(binds)) is not None:
                    out.append(('operator-dropped', p, n, path, 'operator %s and one operand dropped: expected `%s`, found `%s`'
                                % (type(p.op).__name__, unparse(p), unparse(n))))
                    return out
        if isinstance(n, ast.BinOp):
            for keep in (n.left, n.right):
                if Matcher().match(p, keep, dict(binds)) is not None:
                    out.append(('operator-added', p, n, path, 'extra operator %s: expected `%s`, found `%s`'
                                % (type(n.op).__name__, unparse(p), unparse(n))))
                    return out
        if isinstance(p, ast.Call) and not isinstance(n, ast.Call):
            for a in p.args:
                if Matcher().match(a, n, dict(binds)) is not None:
                    out.append(('call-dropped', p, n, path, 'call of %s(...) dropped: expected `%s`, found `%s`'
                                % (callee_name(p), unparse(p), unparse(n))))
                    return out
        if isinstance(p, ast.BoolOp) and not isinstance(n, ast.BoolOp):
            for v in p.values:
                if Matcher().match(v, n, dict(binds)) is not None:
                    out.append(('conjunct-dropped', p, n, path, 'condition reduced from `%s` to `%s`' % (unparse(p), unparse(n))))
                    return out
        if isinstance(n, ast.BoolOp) and not isinstance(p, ast.BoolOp):
            for v in n.values:
                if Matcher().match(p, v, dict(binds)) is not None:
                    out.append(('conjunct-added', p, n, path, 'condition widened/narrowed from `%s` to `%s`' % (unparse(p), unparse(n))))
                    return out
        out.append(('shape', p, n, path, 'expected `%s`, found `%s`' % (unparse(p), unparse(n))))
        return out
    if isinstance(p, ast.Compare) and len(p.ops) == 1 and len(n.ops) == 1:
        same_operands = Matcher().match([p.left, p.comparators[0]], [n.left, n.comparators[0]], dict(binds)) is not None
        swapped = Matcher().match([p.left, p.comparators[0]], [n.comparators[0], n.left], dict(binds)) is not None
        if type(p.ops[0]) is not type(n.ops[0]) and same_operands:
            out.append(('comparison', p, n, path, 'comparison `%s` replaced by `%s`' % (unparse(p), unparse(n))))
            return out
        if swapped:
            out.append(('comparison', p, n, path, 'comparison direction: expected `%s`, found `%s`' % (unparse(p), unparse(n))))
            return out
        if type(p.ops[0]) is not type(n.ops[0]):
            out.append(('shape', p, n, path, 'expected `%s`, found `%s`' % (unparse(p), unparse(n))))
            return out
        differences(p.left, n.left, path + '.left', out, binds)
        differences(p.comparators[0], n.comparators[0], path + '.right', out, binds)
        return out
    if isinstance(p, ast.BinOp):
        if type(p.op) is not type(n.op):
            if Matcher().match([p.left, p.right], [n.left, n.right], dict(binds)) is not None:
                out.append(('operator', p, n, path, 'operator %s replaced by %s in `%s`'
                            % (type(p.op).__name__, type(n.op).__name__, unparse(n))))
                return out
            out.append(('shape', p, n, path, 'expected `%s`, found `%s`' % (unparse(p), unparse(n))))
            return out
        if Matcher().match([p.left, p.right], [n.right, n.left], dict(binds)) is not None:
            out.append(('role-swap', p, n, path, 'operands swapped: expected `%s`, found `%s`' % (unparse(p), unparse(n))))
            return out
        differences(p.left, n.left, path + '.left', out, binds)
        differences(p.right, n.right, path + '.right', out, binds)
        return out
    if isinstance(p, ast.BoolOp):
        if Matcher().match(p, n, dict(binds)) is None:
            pl, nl = _bool_leaves(p), _bool_leaves(n)
            if len(pl) == len(nl) and len(pl) <= 5 and any(
                    Matcher().match(list(pl), list(perm), dict(binds)) is not None for perm in itertools.permutations(nl)):
                out.append(('and-or', p, n, path, 'boolean structure changed: expected `%s`, found `%s`' % (unparse(p), unparse(n))))
                return out
        if type(p.op) is not type(n.op) and len(p.values) == len(n.values):
            if Matcher().match(ast.BoolOp(op=n.op, values=p.values), n, dict(binds)) is not None:
                out.append(('and-or', p, n, path, '`%s` replaced by `%s`' % (unparse(p), unparse(n))))
                return out
        if type(p.op) is type(n.op) and len(p.values) != len(n.values):
            out.append(('conjunct-dropped' if len(n.values) < len(p.values) else 'conjunct-added', p, n, path,
                        'condition changed from `%s` to `%s`' % (unparse(p), unparse(n))))
            return out
        if type(p.op) is type(n.op):
            for i, (x, y) in enumerate(zip(p.values, n.values)):
                differences(x, y, '%s.values[%d]' % (path, i), out, binds)
            return out
        out.append(('shape', p, n, path, 'expected `%s`, found `%s`' % (unparse(p), unparse(n))))
        return out
    if isinstance(p, ast.Call):
        pf, nf_ = callee_name(p), callee_name(n)
        if pf != nf_ and pf and nf_:
            fam = any(pf in f and nf_ in f for f in CONFUSABLE_CALLEES)
            same_args = len(p.args) == len(n.args) and Matcher().match(list(p.args), list(n.args), dict(binds)) is not None
            if fam and same_args:
                out.append(('callee', p, n, path, 'callee %s replaced by %s' % (pf, nf_)))
                return out
            out.append(('shape', p, n, path, 'expected `%s`, found `%s`' % (unparse(p), unparse(n))))
            return out
        if len(p.args) == len(n.args) == 2 and \
                Matcher().match(list(p.args), [n.args[1], n.args[0]], dict(binds)) is not None:
            out.append(('role-swap', p, n, path, 'arguments swapped: expected `%s`, found `%s`' % (unparse(p), unparse(n))))
            return out
        if len(p.args) != len(n.args) or len(p.keywords) != len(n.keywords):
            out.append(('shape', p, n, path, 'expected `%s`, found `%s`' % (unparse(p), unparse(n))))
            return out
        differences(p.func, n.func, path + '.func', out, binds)
        for i, (x, y) in enumerate(zip(p.args, n.args)):
            differences(x, y, '%s.args[%d]' % (path, i), out, binds)
        for x, y in zip(sorted(p.keywords, key=lambda k: k.arg or ''), sorted(n.keywords, key=lambda k: k.arg or '')):
            if x.arg != y.arg:
                out.append(('shape', p, n, path, 'keyword %s vs %s' % (x.arg, y.arg)))
            else:
                differences(x.value, y.value, '%s.%s' % (path, x.arg), out, binds)
        return out
    if isinstance(p, ast.Name):
        out.append(('name', p, n, path, 'name %s replaced by %s' % (p.id, n.id)))
        return out
    if isinstance(p, ast.Attribute):
        if p.attr != n.attr:
            out.append(('name', p, n, path, 'attribute .%s replaced by .%s' % (p.attr, n.attr)))
            return out
        return differences(p.value, n.value, path + '.value', out, binds)
    # generic descent
    for field in p._fields:
        if field in ('ctx', 'type_comment', 'kind'):
            continue
        pv, nv = getattr(p, field, None), getattr(n, field, None)
        if isinstance(pv, list):
            if not isinstance(nv, list) or len(pv) != len(nv):
                out.append(('shape', p, n, path, 'expected `%s`, found `%s`' % (unparse(p), unparse(n))))
                return out
            for i, (x, y) in enumerate(zip(pv, nv)):
                if isinstance(x, ast.AST):
                    differences(x, y, '%s.%s[%d]' % (path, field, i), out, binds)
        elif isinstance(pv, ast.AST):
            if isinstance(pv, (ast.operator, ast.cmpop, ast.unaryop, ast.boolop)):
                if type(pv) is not type(nv):
                    out.append(('operator', p, n, path, 'operator %s replaced by %s' % (type(pv).__name__, type(nv).__name__)))
            elif nv is None:
                out.append(('shape', p, n, path, 'expected `%s`, found `%s`' % (unparse(p), unparse(n))))
            else:
                differences(pv, nv, '%s.%s' % (path, field), out, binds)
        elif pv != nv:
            out.append(('shape', p, n, path, 'expected `%s`, found `%s`' % (unparse(p), unparse(n))))
    return out


def _bool_leaves(e):
    if isinstance(e, ast.BoolOp):
        out = []
        for v in e.values:
            out.extend(_bool_leaves(v))
        return out
    return [e]


DEFINITE = {'literal', 'sign', 'negation', 'operator-dropped', 'operator-added', 'conjunct-dropped',
            'conjunct-added', 'comparison', 'operator', 'role-swap', 'and-or', 'callee', 'call-dropped'}


def classify(p, n, binds=None):
    """MATCH | ('DIFF', text) | UNRECOGNISED for canonical node n against pattern p (or list of alternatives)."""
    alts = p if isinstance(p, (list, tuple)) else [p]
    alts = [pat(a) if isinstance(a, str) else a for a in alts]
    n = canon(n)
    for a in alts:
        b = Matcher().match(a, n, dict(binds or {}))
        if b is not None:
            if binds is not None:
                binds.update(b)
            return MATCH
    best = None
    for a in alts:
        d = differences(a, n, binds=dict(binds or {}))
        if len(d) == 1 and d[0][0] in DEFINITE:
            if best is None:
                best = ('DIFF', d[0][4])
    return best or UNRECOGNISED


def callee_name(call):
    f = call.func if isinstance(call, ast.Call) else call
    if isinstance(f, ast.Attribute):
        return f.attr
    if isinstance(f, ast.Name):
        return f.id
    return None


# ----------------------------------------------------- substitution and decision trees
class _Subst(ast.NodeTransformer):
    def __init__(self, env):
        self.env = env

    def visit_Name(self, node):
        if isinstance(node.ctx, ast.Load) and node.id in self.env:
            return clone(self.env[node.id])
        return node

    def visit_Lambda(self, node):
        return node

    def _comp(self, node):
        shadow = set()
        for g in node.generators:
            for t in ast.walk(g.target):
                if isinstance(t, ast.Name):
                    shadow.add(t.id)
        inner = {k: v for k, v in self.env.items() if k not in shadow}
        return _Subst(inner).generic_visit(node)

    visit_ListComp = visit_SetComp = visit_GeneratorExp = visit_DictComp = _comp


def subst(expr, env):
    if not env:
        return clone(expr)
    return _Subst(env).visit(clone(expr))


def _names_in(expr):
    return {n.id for n in ast.walk(expr) if isinstance(n, ast.Name)}


class Leaf(object):
    def __init__(self, kind, expr=None, stmt=None, env=None):
        self.kind = kind        # 'ret' | 'raise' | 'fall'
        self.expr = expr
        self.stmt = stmt
        self.env = env or {}

    def __repr__(self):
        return '%s(%s)' % (self.kind, unparse(self.expr) if self.expr is not None else '')


class Path(object):
    """One path through a decision tree: guards (canonical exprs) and a leaf."""

    def __init__(self, guards, leaf, effects):
        self.guards = guards
        self.leaf = leaf
        self.effects = effects   # opaque statements executed on the path (after substitution)

    def __repr__(self):
        return 'Path([%s] -> %r)' % (' & '.join(unparse(g) for g in self.guards), self.leaf)


def decision_paths(stmts, env=None, max_paths=512, keep_locals=()):
    """Enumerate the paths of a loop-free statement list with forward substitution.

    Simple assignments to plain local names are substituted forward (unless listed in
    keep_locals).  Anything else (expression statements, stores to attributes or
    subscripts, loops, try, with) is recorded as an opaque effect of the path; loops
    invalidate the substitutions of every name they assign.
    """
    results = []

    def run(stmts, env, guards, effects):
        if len(results) > max_paths:
            raise AnalysisError('too many paths in decision tree')
        for i, s in enumerate(stmts):
            if isinstance(s, ast.Expr) and isinstance(s.value, ast.Constant):
                continue   # docstring
            if isinstance(s, ast.Return):
                val = subst(s.value, env) if s.value is not None else ast.Constant(value=None)
                results.append(Path(guards, Leaf('ret', canon(val), s, env), effects))
                return
            if isinstance(s, ast.Raise):
                val = subst(s.exc, env) if s.exc is not None else None
                results.append(Path(guards, Leaf('raise', canon(val) if val is not None else None, s, env), effects))
                return
            if isinstance(s, ast.If):
                test = canon(subst(s.test, env))
                rest = stmts[i + 1:]
                run(list(s.body) + rest, dict(env), guards + [test], list(effects))
                run(list(s.orelse) + rest, dict(env), guards + [negate(test)], list(effects))
                return
            if isinstance(s, ast.Assign) and len(s.targets) == 1 and isinstance(s.targets[0], ast.Name) \
                    and s.targets[0].id not in keep_locals:
                env = dict(env)
                env[s.targets[0].id] = subst(s.value, env)
                continue
            if isinstance(s, ast.AugAssign) and isinstance(s.target, ast.Name) and s.target.id not in keep_locals:
                env = dict(env)
                cur = env.get(s.target.id, ast.Name(id=s.target.id, ctx=ast.Load()))
                env[s.target.id] = ast.BinOp(left=clone(cur), op=s.op, right=subst(s.value, env))
                continue
            if isinstance(s, ast.Assign) and len(s.targets) == 1 and isinstance(s.targets[0], (ast.Tuple, ast.List)) \
                    and isinstance(s.value, (ast.Tuple, ast.List)) and len(s.value.elts) == len(s.targets[0].elts) \
                    and all(isinstance(t, ast.Name) for t in s.targets[0].elts):
                env = dict(env)
                vals = [subst(v, env) for v in s.value.elts]
                for t, v in zip(s.targets[0].elts, vals):
                    env[t.id] = v
                continue
            if isinstance(s, (ast.Pass,)):
                continue
            # opaque statement: substitute what we can, forget what it assigns
            assigned = {n.id for n in ast.walk(s) if isinstance(n, ast.Name) and isinstance(n.ctx, (ast.Store, ast.Del))}
            if isinstance(s, (ast.For, ast.While, ast.Try, ast.With)):
                safe_env = {k: v for k, v in env.items() if k not in assigned}
                eff = _Subst(safe_env).visit(clone(s))
            else:
                eff = _Subst(env).visit(clone(s))
            effects = effects + [canon(eff)]
            env = {k: v for k, v in env.items() if k not in assigned and not (_names_in(v) & assigned)}
        results.append(Path(guards, Leaf('fall', None, None, env), effects))

    run(list(stmts), dict(env or {}), [], [])
    return results


def func_paths(fn, **kw):
    return decision_paths(fn.body, **kw)


def exc_class_name(expr):
    """Name of the exception class in `raise X(...)` / `raise X`."""
    if expr is None:
        return None
    if isinstance(expr, ast.Call):
        expr = expr.func
    if isinstance(expr, ast.Attribute):
        return expr.attr
    if isinstance(expr, ast.Name):
        return expr.id
    return unparse(expr)


def config_key(expr):
    """'k' if expr is self.config['k'] (any receiver named config), else None."""
    if isinstance(expr, ast.Subscript) and isinstance(expr.slice, ast.Constant) and isinstance(expr.slice.value, str):
        v = expr.value
        if (isinstance(v, ast.Attribute) and v.attr == 'config') or (isinstance(v, ast.Name) and v.id == 'config'):
            return expr.slice.value
    return None


def const_value(expr, default=None):
    try:
        return ast.literal_eval(expr)
    except Exception:
        return default


def conjuncts(expr):
    if isinstance(expr, ast.BoolOp) and isinstance(expr.op, ast.And):
        out = []
        for v in expr.values:
            out.extend(conjuncts(v))
        return out
    return [expr]


def disjuncts(expr):
    if isinstance(expr, ast.BoolOp) and isinstance(expr.op, ast.Or):
        out = []
        for v in expr.values:
            out.extend(disjuncts(v))
        return out
    return [expr]
