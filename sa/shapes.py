"""E7a AI-SHAPE: abstract interpreter over operand-shape descriptors.

The interpreter walks the AST of functions of /repo (never imports or runs them, never
touches numpy) and evaluates them over an abstract domain of *operand descriptors*:

  N(v, np)      a number.  `v` is a representative of its class (0, 0.0, 2, 2.0, 2.5, -2,
                -2.0, -2.5, 1+2j, and the near-integers 2.9999999999999996 / -2.0000000000000004
                for the non-integer class); `np` marks a numpy scalar (np.float64 ...).  The
                predicates that are constant on the classes are: comparison with the literal 0,
                isinstance against int/float/complex/Number/np.number, float.is_integer, int().
                Any other comparison (with a non-zero constant, e.g. a tolerance, or between two
                operand numbers) is evaluated on the representative and the run is marked
                *inexact*: a differing outcome is still a concrete witness (VIOLATION), an agreeing
                one does not discharge the class (the caller reports it as undecided).
  Arr(shape)    a MathArray.  `shape` is a tuple of dimensions, each either the integer 1 or a
                symbol ('n', 'm', 'k': distinct symbols are distinct sizes > 1), so "same shape",
                "square", "size 1" and "inner dimensions agree" are decided exactly.  `val` is a
                linear form over symbolic atoms (value identity, e.g. {A: 1, B: -1} for A - B),
                `item` the number held by a size-1 array, `singular` whether a square matrix
                is singular.
  Foreign       an object that is neither a number nor an array.

Everything else the interpreted code manipulates (booleans, small ints such as ndim, shape
tuples, strings, lists, exception instances, classes, bound super-methods) is represented
concretely.  numpy itself is a *model table* in this file:

  ndarray.__op__(x)              ELEMENTWISE leaf (records whether numpy broadcast two shapes)
  np.dot(a, b)                   splits on "inner dimensions agree" -> value | ValueError
  np.linalg.matrix_power(a, k)   value | LinAlgError('Singular matrix') | TypeError
  numpy scalar on the left       bypasses MathArray's reflected methods (NPLEFT leaf)
  a[...] = v / a[:] = v          whole-array store: v is broadcast into a's shape and cast to a's entry type (STORE leaf;
                                 the value identity becomes stored_with_entry_type_of(a, v), which no table row expects)

Each run is deterministic (descriptors are fully specified), so an outcome is exact with
respect to the model.  Unsupported constructs raise AnalysisError (exit 2), never a verdict.
"""
import ast

from .index import AnalysisError, unparse, short, walk_own

MAX_DEPTH = 14
MAX_LOOP = 64

BUILTIN_EXC_PARENTS = {
    'ZeroDivisionError': 'ArithmeticError', 'OverflowError': 'ArithmeticError', 'FloatingPointError': 'ArithmeticError',
    'ArithmeticError': 'Exception', 'ValueError': 'Exception', 'TypeError': 'Exception', 'KeyError': 'LookupError',
    'IndexError': 'LookupError', 'LookupError': 'Exception', 'AttributeError': 'Exception', 'RuntimeError': 'Exception',
    'NotImplementedError': 'RuntimeError', 'Exception': 'BaseException', 'AssertionError': 'Exception',
    'StopIteration': 'Exception', 'BaseException': None,
}
EXTERNAL_EXC = {'numpy.linalg.LinAlgError': ['numpy.linalg.LinAlgError', 'ValueError', 'Exception', 'BaseException'],
                'numpy.linalg.linalg.LinAlgError': ['numpy.linalg.LinAlgError', 'ValueError', 'Exception', 'BaseException']}

OPS = {ast.Add: 'add', ast.Sub: 'sub', ast.Mult: 'mul', ast.Div: 'truediv', ast.Pow: 'pow', ast.Mod: 'mod',
       ast.FloorDiv: 'floordiv', ast.MatMult: 'matmul'}
OPSYM = {'add': '+', 'sub': '-', 'mul': '*', 'truediv': '/', 'pow': '^', 'mod': '%', 'floordiv': '//', 'matmul': '@'}


# ------------------------------------------------------------------------ descriptors
class N(object):
    """An operand number (class representative)."""
    __slots__ = ('v', 'np', 'sym')

    def __init__(self, v, np=False, sym=None):
        self.v = v
        self.np = np
        self.sym = sym      # optional linear form (value identity of a contracted product)

    @property
    def kind(self):
        return 'complex' if isinstance(self.v, complex) else ('float' if isinstance(self.v, float) else 'int')

    def describe(self):
        k = self.kind
        if self.v == 0:
            what = 'number 0'
        elif k == 'complex':
            what = 'complex number'
        elif k == 'int':
            what = 'negative integer' if self.v < 0 else 'positive integer'
        elif self.v.is_integer():
            what = 'negative integer-valued float' if self.v < 0 else 'integer-valued float'
        else:
            what = 'negative non-integer' if self.v < 0 else 'non-integer number'
        return ('numpy ' if self.np else '') + what + ' (%r)' % (self.v,)

    def __repr__(self):
        return 'N(%r%s)' % (self.v, ', np' if self.np else '')


class Dim(str):
    """A symbolic axis length > 1.  Equal symbols are equal lengths, different symbols are different lengths (this is the
    definition of the catalogue of operand shapes, so explicit comparisons of axis lengths are decided exactly)."""
    __slots__ = ()


class Arr(object):
    __slots__ = ('shape', 'val', 'item', 'singular', 'name')

    def __init__(self, shape, val=None, item=None, singular=False, name=None):
        self.shape = tuple(Dim(d) if isinstance(d, str) and not isinstance(d, Dim) else d for d in shape)
        self.name = name
        self.val = val if val is not None else lf_atom(('arr', name or 'anon'))
        self.item = item
        self.singular = singular
        if self.size1 and self.item is None:
            self.item = N(7.0)

    @property
    def ndim(self):
        return len(self.shape)

    @property
    def size1(self):
        return all(d == 1 for d in self.shape)

    @property
    def square(self):
        return len(self.shape) == 2 and self.shape[0] == self.shape[1]

    def describe(self):
        if self.size1:
            return 'size-1 array of shape %s' % (self.shape,)
        nm = {1: 'vector', 2: 'matrix'}.get(self.ndim, 'tensor')
        extra = ' (singular)' if self.singular else ''
        return '%s of shape (%s)%s' % (nm, ','.join(str(d) for d in self.shape), extra)

    def __repr__(self):
        return 'Arr(%s)' % ','.join(str(d) for d in self.shape)


class BoolArr(object):
    """Result of an elementwise comparison of an array."""
    __slots__ = ('shape',)

    def __init__(self, shape):
        self.shape = tuple(shape)


class Foreign(object):
    def __init__(self, name='object'):
        self.name = name

    def describe(self):
        return 'foreign object (%s)' % self.name

    def __repr__(self):
        return 'Foreign(%s)' % self.name


class Opaque(object):
    """A value that only flows into messages (type(x), formatted text)."""
    def __init__(self, what=''):
        self.what = what


class ClassV(object):
    """A class object: chain = names of the class and its bases, most specific first."""
    def __init__(self, name, chain, ci=None):
        self.name = name
        self.chain = list(chain)
        self.ci = ci

    @property
    def is_exception(self):
        return 'BaseException' in self.chain or 'Exception' in self.chain

    def __repr__(self):
        return '<class %s>' % self.name


class ExcInst(object):
    def __init__(self, cls, args=(), node=None):
        self.cls = cls
        self.args = tuple(args)
        self.node = node

    @property
    def message(self):
        return self.args[0] if self.args and isinstance(self.args[0], str) else ''


class FuncV(object):
    def __init__(self, fi, bound=None):
        self.fi = fi
        self.bound = bound      # receiver for methods


class NdMethod(object):
    """ndarray's own implementation of a special method, bound to an Arr (the ELEMENTWISE leaf)."""
    def __init__(self, selfv, name):
        self.selfv = selfv
        self.name = name


class SuperV(object):
    def __init__(self, selfv, owner):
        self.selfv = selfv
        self.owner = owner


class ExtV(object):
    """A name of an external library (numpy, numbers) with a model below."""
    def __init__(self, dotted):
        self.dotted = dotted

    def __repr__(self):
        return '<ext %s>' % self.dotted


class BuiltinV(object):
    def __init__(self, name):
        self.name = name


class NumMethod(object):
    def __init__(self, num, name):
        self.num = num
        self.name = name


class ListMethod(object):
    def __init__(self, lst, name):
        self.lst = lst
        self.name = name


class StrMethod(object):
    def __init__(self, s, name):
        self.s = s
        self.name = name


class ObjV(object):
    """An instance of a small package class (per-call record / accumulator): attributes are kept concretely."""
    def __init__(self, ci):
        self.ci = ci
        self.attrs = {}


class LambdaV(object):
    """A lambda with its defining environment (closures over locals are by reference, as in Python)."""
    def __init__(self, node, env, fi):
        self.node, self.env, self.fi = node, env, fi


class LazyGen(object):
    """A generator expression: elements are produced on demand, so a consumer that stops early (next, any, all) does not
    evaluate the conditions of later items -- exactly Python's behaviour."""
    def __init__(self, interp, node, items, env, fi):
        self.interp, self.node, self.items, self.env, self.fi = interp, node, items, env, fi
        self._it = None

    def __iter__(self):
        if self._it is None:
            self._it = self._produce()
        return self._it

    def _produce(self):
        g = self.node.generators[0]
        inner = dict(self.env)
        for x in self.items:
            self.interp.assign(g.target, x, inner, self.fi)
            if all(self.interp.truth(self.interp.eval(c, inner, self.fi), c) for c in g.ifs):
                yield self.interp.eval(self.node.elt, inner, self.fi)


class Raised(Exception):
    """An exception raised *by the interpreted code* (or by a modelled primitive)."""
    def __init__(self, inst):
        Exception.__init__(self, inst.cls.name)
        self.inst = inst


class _Return(Exception):
    def __init__(self, value):
        self.value = value


class _Break(Exception):
    pass


class _Continue(Exception):
    pass


# ------------------------------------------------------------------------ linear forms
def lf_atom(atom, coef=1):
    return {atom: coef}


def lf_key(lf):
    return tuple(sorted(((repr(a), a, _round(c)) for a, c in lf.items()), key=lambda t: t[0]))


def _round(c):
    if isinstance(c, complex):
        return complex(round(c.real, 9), round(c.imag, 9))
    if isinstance(c, float):
        return round(c, 9)
    return c


def lf_scale(lf, c):
    return {a: k * c for a, k in lf.items()}


def lf_add(a, b, sign=1):
    out = dict(a)
    for atom, k in b.items():
        out[atom] = out.get(atom, 0) + sign * k
    return {a_: k for a_, k in out.items() if k != 0}


def lf_equal(a, b):
    if a is None or b is None:
        return a is b
    a = {k: c for k, c in a.items() if c != 0}
    b = {k: c for k, c in b.items() if c != 0}
    if set(a) != set(b):
        return False
    return all(abs(a[k] - b[k]) <= 1e-9 * max(1.0, abs(a[k])) for k in a)


def lf_single(lf):
    """(atom, coef) when the form has exactly one term."""
    if len(lf) == 1:
        (a, c), = lf.items()
        return a, c
    return None, None


def lf_frozen(lf):
    return tuple((a, _round(c)) for _, a, c in lf_key(lf))


def lf_product(kind, a, b):
    """Bilinear atom kind(a, b) with the scalar factors pulled out when both sides are single terms."""
    aa, ca = lf_single(a)
    ba, cb = lf_single(b)
    if aa is not None and ba is not None:
        return {(kind, aa, ba): ca * cb}
    return {(kind, lf_frozen(a), lf_frozen(b)): 1}


def dot_val(a, b):
    """Value identity of np.dot(a, b); the product of two vectors is symmetric (np.dot does not conjugate)."""
    if a.ndim == 1 and b.ndim == 1 and repr(lf_key(a.val)) > repr(lf_key(b.val)):
        a, b = b, a
    return lf_product('dot', a.val, b.val)


def lf_show(lf):
    if lf is None:
        return '?'
    if not lf:
        return '0'
    parts = []
    for _, a, c in lf_key(lf):
        parts.append('%s*%s' % (c, _atom_show(a)) if c != 1 else _atom_show(a))
    return ' + '.join(parts)


def _atom_show(a):
    if isinstance(a, tuple) and a and a[0] == 'arr':
        return str(a[1])
    if isinstance(a, tuple) and a and all(isinstance(x, tuple) and len(x) == 2 and isinstance(x[0], tuple) for x in a):
        return lf_show(dict(a))       # a frozen linear form
    if isinstance(a, tuple) and a and isinstance(a[0], str):
        return '%s(%s)' % (a[0], ', '.join(_atom_show(x) for x in a[1:]))
    return str(a)


# ------------------------------------------------------------------------ numpy model
def dims_broadcast(s1, s2):
    """numpy broadcasting of two symbolic shapes -> shape or None."""
    out = []
    for i in range(1, max(len(s1), len(s2)) + 1):
        a = s1[-i] if i <= len(s1) else 1
        b = s2[-i] if i <= len(s2) else 1
        if a == b:
            out.append(a)
        elif a == 1:
            out.append(b)
        elif b == 1:
            out.append(a)
        else:
            return None
    return tuple(reversed(out))


def dot_shape(s1, s2):
    """Shape of np.dot for symbolic shapes, or None when the inner dimensions differ."""
    if len(s1) == 0 or len(s2) == 0:
        return tuple(s1) + tuple(s2)
    inner_b = s2[-2] if len(s2) >= 2 else s2[-1]
    if s1[-1] != inner_b:
        return None
    rest_b = tuple(s2[:-2]) + tuple(s2[-1:]) if len(s2) >= 2 else ()
    return tuple(s1[:-1]) + rest_b


# ------------------------------------------------------------------------ interpreter
class Trace(object):
    """Primitive events of one run."""
    def __init__(self):
        self.events = []
        self.methods = []
        self.inexact = []       # reasons why this run is a witness for its representative only, not for the whole class

    def add(self, kind, **kw):
        kw['kind'] = kind
        self.events.append(kw)

    def of(self, kind):
        return [e for e in self.events if e['kind'] == kind]


class Outcome(object):
    def __init__(self, kind, value=None, exc=None, trace=None, where=None):
        self.kind = kind            # 'VALUE' | 'RAISE'
        self.value = value
        self.exc = exc              # ExcInst
        self.trace = trace
        self.where = where          # ast node of the raise / return

    def exc_chain(self):
        return self.exc.cls.chain if self.exc is not None else []

    def describe(self):
        if self.kind == 'RAISE':
            return 'RAISE(%s)' % self.exc.cls.name.split('.')[-1]
        return 'VALUE(%s)' % describe(self.value)


def describe(v):
    if isinstance(v, (N, Arr, Foreign)):
        return v.describe()
    if isinstance(v, BoolArr):
        return 'boolean array %s' % (v.shape,)
    if isinstance(v, list):
        return '[%s]' % ', '.join(describe(x) for x in v)
    return repr(v)


class Interp(object):
    """One deterministic abstract run.  `class_attr(class_value, attr)` supplies the value of class-level
    flags (e.g. MathArray._negative_powers); `array_class` is the qualified name of MathArray."""

    def __init__(self, idx, array_class, class_attr=None):
        self.idx = idx
        self.array_q = array_class
        self.array_ci = idx.cls(array_class)
        self.class_attr = class_attr
        self.trace = Trace()
        self.depth = 0
        self.handling = []      # stack of exceptions being handled (for bare `raise`)
        self.gen_stack = []
        self.last_node = None

    # ----------------------------------------------------------------- entry points
    def run(self, thunk):
        try:
            v = thunk()
            return Outcome('VALUE', value=v, trace=self.trace, where=self.last_node)
        except Raised as r:
            return Outcome('RAISE', exc=r.inst, trace=self.trace, where=r.inst.node)
        except RecursionError:
            raise AnalysisError('abstract interpretation exceeded the recursion bound')

    # ----------------------------------------------------------------- exceptions
    def builtin_exc(self, name, msg='', node=None):
        return ExcInst(self.builtin_class(name), (msg,), node)

    def builtin_class(self, name):
        chain = []
        cur = name
        while cur is not None:
            chain.append(cur)
            cur = BUILTIN_EXC_PARENTS.get(cur)
        if chain[-1] != 'BaseException':
            chain += ['Exception', 'BaseException'] if 'Exception' not in chain else ['BaseException']
        return ClassV(name, chain)

    def class_value(self, ci):
        chain = list(ci.mro)
        tail = chain[-1].split('.')[-1]
        if tail in BUILTIN_EXC_PARENTS or tail == 'BaseException':
            chain[-1] = tail
            cur = BUILTIN_EXC_PARENTS.get(tail)
            while cur is not None:
                chain.append(cur)
                cur = BUILTIN_EXC_PARENTS.get(cur)
        elif tail == 'ndarray':
            chain[-1] = 'numpy.ndarray'
        return ClassV(ci.qualname, chain, ci)

    # ----------------------------------------------------------------- names
    def lookup(self, name, env, fi, node=None):
        if name in env:
            return env[name]
        if name in ('True', 'False', 'None'):
            return {'True': True, 'False': False, 'None': None}[name]
        kind, obj = self.idx.resolve_name(fi.module, name)
        if kind == 'func':
            return FuncV(obj)
        if kind == 'class':
            return self.class_value(obj)
        if kind == 'builtin':
            if obj in BUILTIN_EXC_PARENTS:
                return self.builtin_class(obj)
            return BuiltinV(obj)
        if kind == 'external':
            return self.external(obj, node)
        if kind == 'value':
            mod, nm = obj
            vals = mod.assigns.get(nm, [])
            if len(vals) == 1 and isinstance(vals[0], ast.Constant):
                return vals[0].value
            if len(vals) == 1 and isinstance(vals[0], (ast.Name, ast.Attribute)):
                fake = _ModuleCtx(mod)
                return self.eval(vals[0], {}, fake)
            if len(vals) == 1:
                # any other module-level constant (a message built with join/format/concatenation, a table, ...): try to
                # evaluate it; what cannot be evaluated is an opaque value, which may flow into messages but not into tests
                try:
                    return self.eval(vals[0], {}, _ModuleCtx(mod))
                except AnalysisError:
                    return Opaque('%s.%s' % (mod.name, nm))
            raise AnalysisError('module-level value %s.%s is outside the shape interpreter' % (mod.name, nm))
        if kind == 'module':
            return ExtV(obj.name)
        raise AnalysisError('cannot resolve name %s' % name)

    def external(self, dotted, node=None):
        if dotted in EXTERNAL_EXC:
            return ClassV(EXTERNAL_EXC[dotted][0], EXTERNAL_EXC[dotted])
        if dotted in ('numbers.Number', 'numpy.ndarray', 'numpy.number', 'numpy.floating', 'numpy.integer',
                      'numpy.complexfloating', 'numbers.Real', 'numbers.Complex', 'numbers.Integral'):
            return ClassV(dotted, [dotted, 'object'])
        return ExtV(dotted)

    # ----------------------------------------------------------------- functions
    def call_function(self, fi, args, kwargs=None, bound=None, node=None):
        kwargs = dict(kwargs or {})
        self.depth += 1
        if self.depth > MAX_DEPTH:
            raise AnalysisError('call depth %d exceeded while interpreting %s' % (MAX_DEPTH, fi.qualname))
        try:
            fn = fi.node
            a = fn.args
            if a.vararg or a.kwarg or a.kwonlyargs or a.posonlyargs:
                raise AnalysisError('%s: *args/**kwargs/keyword-only parameters are outside the shape interpreter' % fi.qualname)
            names = [x.arg for x in a.args]
            actual = list(args)
            if bound is not None:
                actual = [bound] + actual
            if len(actual) > len(names):
                raise AnalysisError('%s called with too many arguments' % fi.qualname)
            env = dict(zip(names, actual))
            defaults = dict(zip(names[len(names) - len(a.defaults):], a.defaults))
            for n in names[len(actual):]:
                if n in kwargs:
                    env[n] = kwargs.pop(n)
                elif n in defaults:
                    env[n] = self.eval(defaults[n], {}, fi)
                else:
                    raise AnalysisError('%s called without argument %s' % (fi.qualname, n))
            if kwargs:
                raise AnalysisError('%s called with unknown keyword %s' % (fi.qualname, sorted(kwargs)))
            self.trace.methods.append(fi.qualname)
            is_gen = getattr(fn, '_sa_is_gen', None)
            if is_gen is None:
                is_gen = fn._sa_is_gen = any(isinstance(n, (ast.Yield, ast.YieldFrom)) for n in walk_own(fn))
            if is_gen:
                # a generator is run eagerly and handed out as the list of yielded values; this is faithful as long as it does
                # not raise (the consumer would otherwise have run in between) -- the callers only iterate over it
                self.gen_stack.append([])
                try:
                    try:
                        self.exec_block(fn.body, env, fi)
                    except _Return:
                        pass
                    except Raised:
                        raise AnalysisError('generator %s raises while being consumed: lazy evaluation order is not modelled' % fi.qualname)
                    return self.gen_stack[-1]
                finally:
                    self.gen_stack.pop()
            try:
                self.exec_block(fn.body, env, fi)
            except _Return as r:
                if isinstance(r.value, bool) and fi.cls is None:
                    definition = getattr(fn, '_sa_pred_def', False)
                    if definition is False:
                        rets = [n for n in walk_own(fn) if isinstance(n, ast.Return)]
                        definition = fn._sa_pred_def = short(rets[0].value, 90) if len(rets) == 1 and rets[0].value is not None else None
                    self.trace.add('PRED', name=fi.name, value=r.value, args=list(actual), definition=definition)
                return r.value
            return None
        finally:
            self.depth -= 1

    # ----------------------------------------------------------------- statements
    def exec_block(self, stmts, env, fi):
        for s in stmts:
            self.exec_stmt(s, env, fi)

    def exec_stmt(self, s, env, fi):
        if isinstance(s, ast.Expr):
            if isinstance(s.value, ast.Constant):
                return
            self.eval(s.value, env, fi)
            return
        if isinstance(s, ast.Assign):
            v = self.eval(s.value, env, fi)
            for t in s.targets:
                self.assign(t, v, env, fi)
            return
        if isinstance(s, ast.AugAssign):
            if not isinstance(s.target, ast.Name):
                raise AnalysisError('augmented assignment to `%s` is outside the shape interpreter' % short(s.target))
            cur = self.lookup(s.target.id, env, fi)
            env[s.target.id] = self.binop(OPS.get(type(s.op)), cur, self.eval(s.value, env, fi), s, inplace=True)
            return
        if isinstance(s, ast.If):
            if self.truth(self.eval(s.test, env, fi), s.test):
                self.exec_block(s.body, env, fi)
            else:
                self.exec_block(s.orelse, env, fi)
            return
        if isinstance(s, ast.Return):
            self.last_node = s
            raise _Return(self.eval(s.value, env, fi) if s.value is not None else None)
        if isinstance(s, ast.Raise):
            if s.exc is None:
                if not self.handling:
                    raise AnalysisError('bare raise outside a handler')
                raise Raised(self.handling[-1])
            v = self.eval(s.exc, env, fi)
            if isinstance(v, ClassV) and v.is_exception:
                v = ExcInst(v, (), s)
            if not isinstance(v, ExcInst):
                raise AnalysisError('raise of a non-exception value `%s`' % short(s.exc))
            if v.node is None or not isinstance(v.node, ast.Raise):
                v.node = s
            raise Raised(v)
        if isinstance(s, ast.Pass):
            return
        if isinstance(s, ast.While):
            n = 0
            while self.truth(self.eval(s.test, env, fi), s.test):
                n += 1
                if n > MAX_LOOP:
                    raise AnalysisError('loop bound exceeded in %s' % fi.qualname)
                try:
                    self.exec_block(s.body, env, fi)
                except _Break:
                    break
                except _Continue:
                    continue
            else:
                self.exec_block(s.orelse, env, fi)
            return
        if isinstance(s, ast.For):
            it = self.eval(s.iter, env, fi)
            if isinstance(it, LazyGen):
                it = list(it)
            if not isinstance(it, (list, tuple)):
                raise AnalysisError('for-loop over a non-list value in %s' % fi.qualname)
            broke = False
            for x in list(it):
                self.assign(s.target, x, env, fi)
                try:
                    self.exec_block(s.body, env, fi)
                except _Break:
                    broke = True
                    break
                except _Continue:
                    continue
            if not broke:
                self.exec_block(s.orelse, env, fi)
            return
        if isinstance(s, ast.Break):
            raise _Break()
        if isinstance(s, ast.Continue):
            raise _Continue()
        if isinstance(s, ast.Try):
            self.exec_try(s, env, fi)
            return
        raise AnalysisError('statement `%s` is outside the shape interpreter (%s)' % (short(s, 60), fi.qualname))

    def exec_try(self, s, env, fi):
        try:
            try:
                self.exec_block(s.body, env, fi)
            except Raised as r:
                for h in s.handlers:
                    if self.handler_matches(h, r.inst, env, fi):
                        if h.name:
                            env[h.name] = r.inst
                        self.handling.append(r.inst)
                        try:
                            self.exec_block(h.body, env, fi)
                        finally:
                            self.handling.pop()
                        break
                else:
                    raise
            else:
                self.exec_block(s.orelse, env, fi)
        finally:
            if s.finalbody:
                self.exec_block(s.finalbody, env, fi)

    def handler_matches(self, h, inst, env, fi):
        if h.type is None:
            return True
        t = self.eval(h.type, env, fi)
        ts = list(t) if isinstance(t, (tuple, list)) else [t]
        for c in ts:
            if not isinstance(c, ClassV):
                raise AnalysisError('except clause `%s` does not name a class' % short(h.type))
            if c.chain[0] in inst.cls.chain:
                return True
        return False

    def assign(self, target, v, env, fi):
        if isinstance(target, ast.Name):
            env[target.id] = v
        elif isinstance(target, (ast.Tuple, ast.List)):
            if not isinstance(v, (list, tuple)) or len(v) != len(target.elts):
                raise AnalysisError('cannot unpack `%s`' % short(target))
            for t, x in zip(target.elts, v):
                self.assign(t, x, env, fi)
        elif isinstance(target, ast.Subscript) and isinstance(target.value, ast.Name) and isinstance(env.get(target.value.id), Arr):
            # whole-array store  a[...] = v  /  a[:] = v : numpy broadcasts v into a's shape and CASTS it to a's entry type
            sl = target.slice
            whole = (isinstance(sl, ast.Constant) and sl.value is Ellipsis) or \
                    (isinstance(sl, ast.Slice) and sl.lower is None and sl.upper is None and sl.step is None)
            if not whole:
                raise AnalysisError('element store `%s` is outside the shape interpreter' % short(target))
            a = env[target.value.id]
            v = self.lift(v)
            if isinstance(v, Arr):
                if dims_broadcast(a.shape, v.shape) != a.shape:
                    raise Raised(self.builtin_exc('ValueError', 'could not broadcast input array into the shape of the target', target))
                src = lf_frozen(v.val)
            elif isinstance(v, N):
                src = ('number', _round(v.v))
            else:
                raise Raised(self.builtin_exc('TypeError', 'cannot store a foreign object into an array', target))
            self.trace.add('STORE', arr=a, value=v, node=target)
            if src == lf_frozen(a.val):
                return          # storing an array's own value back is the identity
            env[target.value.id] = Arr(a.shape, lf_atom(('stored_with_entry_type_of', lf_frozen(a.val), src)),
                                       N(7.0) if a.size1 else None, False)
        elif isinstance(target, ast.Attribute) and isinstance(target.value, ast.Name) and isinstance(env.get(target.value.id), ObjV):
            env[target.value.id].attrs[target.attr] = v
        else:
            raise AnalysisError('assignment to `%s` is outside the shape interpreter' % short(target))

    # ----------------------------------------------------------------- truth
    def truth(self, v, node=None):
        if isinstance(v, (bool, int, str, tuple, list, dict)) or v is None:
            return bool(v)
        if isinstance(v, N):
            return v.v != 0
        if isinstance(v, BoolArr):
            if all(d == 1 for d in v.shape):
                raise AnalysisError('truth value of a size-1 boolean array depends on the element')
            raise Raised(self.builtin_exc('ValueError', 'The truth value of an array with more than one element is ambiguous', node))
        if isinstance(v, Arr):
            if v.size1:
                return self.truth(v.item, node)
            raise Raised(self.builtin_exc('ValueError', 'The truth value of an array with more than one element is ambiguous', node))
        if isinstance(v, (Foreign, ClassV, FuncV, ExcInst, LambdaV, LazyGen, ObjV)):
            return True
        raise AnalysisError('truth value of `%s` is outside the shape interpreter' % (short(node) if node is not None else v))

    # ----------------------------------------------------------------- expressions
    def eval(self, e, env, fi):
        m = getattr(self, 'e_' + type(e).__name__, None)
        if m is None:
            raise AnalysisError('expression `%s` (%s) is outside the shape interpreter' % (short(e, 60), type(e).__name__))
        return m(e, env, fi)

    def e_Constant(self, e, env, fi):
        v = e.value
        if isinstance(v, (int, float, complex)) and not isinstance(v, bool):
            return v       # literal numbers stay raw: they are code constants, not operand classes
        return v

    def e_Name(self, e, env, fi):
        return self.lookup(e.id, env, fi, e)

    def e_Yield(self, e, env, fi):
        if not self.gen_stack:
            raise AnalysisError('yield outside an interpreted generator')
        self.gen_stack[-1].append(self.eval(e.value, env, fi) if e.value is not None else None)
        return None

    def e_Tuple(self, e, env, fi):
        return tuple(self.eval(x, env, fi) for x in e.elts)

    def e_List(self, e, env, fi):
        return [self.eval(x, env, fi) for x in e.elts]

    def e_Dict(self, e, env, fi):
        out = {}
        for k, v in zip(e.keys, e.values):
            if k is None:
                raise AnalysisError('dict literal with ** expansion')
            kk = self.eval(k, env, fi)
            if not isinstance(kk, (str, int)):
                raise AnalysisError('dict key `%s` is outside the shape interpreter' % short(k))
            out[kk] = self.eval(v, env, fi)
        return out

    def e_JoinedStr(self, e, env, fi):
        return ''

    def e_BoolOp(self, e, env, fi):
        if isinstance(e.op, ast.And):
            v = True
            for x in e.values:
                v = self.eval(x, env, fi)
                if not self.truth(v, x):
                    return v
            return v
        v = False
        for x in e.values:
            v = self.eval(x, env, fi)
            if self.truth(v, x):
                return v
        return v

    def e_UnaryOp(self, e, env, fi):
        v = self.eval(e.operand, env, fi)
        if isinstance(e.op, ast.Not):
            return not self.truth(v, e.operand)
        if isinstance(e.op, ast.USub):
            return self.negate(v, e)
        if isinstance(e.op, ast.UAdd):
            return v
        raise AnalysisError('unary operator in `%s`' % short(e))

    def negate(self, v, node=None):
        if isinstance(v, N):
            return N(-v.v, v.np, lf_scale(v.sym, -1) if v.sym else None)
        if isinstance(v, (int, float, complex)) and not isinstance(v, bool):
            return -v
        if isinstance(v, Arr):
            if self.find_method(v, '__neg__') is not None:
                raise AnalysisError('MathArray.__neg__ is overridden: outside the reviewed model')
            return Arr(v.shape, lf_scale(v.val, -1), self.negate(v.item) if v.item is not None else None, v.singular)
        raise AnalysisError('unary minus on `%s`' % describe(v))

    def e_IfExp(self, e, env, fi):
        return self.eval(e.body if self.truth(self.eval(e.test, env, fi), e.test) else e.orelse, env, fi)

    def e_Compare(self, e, env, fi):
        left = self.eval(e.left, env, fi)
        result = True
        for op, right_e in zip(e.ops, e.comparators):
            right = self.eval(right_e, env, fi)
            result = self.compare(op, left, right, e)
            if not isinstance(result, bool) or not result:
                return result
            left = right
        return result

    def compare(self, op, a, b, node):
        if isinstance(a, (Arr, BoolArr)) or isinstance(b, (Arr, BoolArr)):
            if isinstance(op, (ast.Is, ast.IsNot)):
                return (a is b) == isinstance(op, ast.Is)
            if isinstance(op, (ast.In, ast.NotIn)):
                raise AnalysisError('membership test on arrays in `%s`' % short(node))
            arr = a if isinstance(a, (Arr, BoolArr)) else b
            other = b if arr is a else a
            shape = arr.shape
            if isinstance(other, (Arr, BoolArr)):
                shape = dims_broadcast(arr.shape, other.shape)
                if shape is None:
                    raise AnalysisError('elementwise comparison of unbroadcastable arrays in `%s`' % short(node))
            if isinstance(arr, Arr) and arr.size1 and isinstance(other, (N, int, float, complex)) \
                    and isinstance(op, (ast.Eq, ast.NotEq)) and self.is_zero_literal(other):
                return (arr.item.v == 0) == isinstance(op, ast.Eq)
            return BoolArr(shape)
        if isinstance(op, (ast.Is, ast.IsNot)):
            same = a is b or (a is None and b is None) or (isinstance(a, bool) and isinstance(b, bool) and a == b)
            return same == isinstance(op, ast.Is)
        if isinstance(op, (ast.In, ast.NotIn)):
            if isinstance(b, (list, tuple)) and all(isinstance(x, (str, int)) for x in b) and isinstance(a, (str, int)):
                return (a in b) == isinstance(op, ast.In)
            raise AnalysisError('membership test `%s` is outside the shape interpreter' % short(node))
        if isinstance(a, Dim) or isinstance(b, Dim):
            return self.compare_dim(op, a, b, node)
        an, bn = isinstance(a, N), isinstance(b, N)
        if an or bn:
            num, other = (a, b) if an else (b, a)
            if isinstance(other, N):
                self.trace.inexact.append('`%s` compares two operand numbers' % short(node))
                return self.py_compare(op, a.v, b.v, node)
            if isinstance(other, str) or other is None or isinstance(other, (tuple, list, Foreign, ClassV, Opaque)):
                if isinstance(op, ast.Eq):
                    return False
                if isinstance(op, ast.NotEq):
                    return True
                raise Raised(self.builtin_exc('TypeError', 'ordering of a number and a non-number', node))
            if not (isinstance(other, (int, float, complex)) and not isinstance(other, bool)):
                raise AnalysisError('comparison of an operand number with `%s` in `%s`' % (describe(other), short(node)))
            if not self.is_zero_literal(other):
                # evaluated on the class representative: a differing outcome is a concrete witness, an agreeing one
                # does not speak for the whole class
                self.trace.inexact.append('`%s` compares an operand number with the non-zero constant %r' % (short(node), other))
            x, y = (num.v, other) if an else (other, num.v)
            return self.py_compare(op, x, y, node)
        if isinstance(a, Foreign) or isinstance(b, Foreign):
            if isinstance(op, ast.Eq):
                return False
            if isinstance(op, ast.NotEq):
                return True
            raise Raised(self.builtin_exc('TypeError', 'ordering of a foreign object', node))
        if isinstance(a, (ClassV, Opaque, ExcInst, FuncV)) or isinstance(b, (ClassV, Opaque, ExcInst, FuncV)):
            raise AnalysisError('comparison `%s` is outside the shape interpreter' % short(node))
        return self.py_compare(op, a, b, node)

    def compare_dim(self, op, a, b, node):
        """Comparison involving a symbolic axis length (> 1): with another symbol by identity, with small integers exactly."""
        if isinstance(a, Dim) and isinstance(b, Dim):
            same = str(a) == str(b)
            if isinstance(op, ast.Eq):
                return same
            if isinstance(op, ast.NotEq):
                return not same
            if same and isinstance(op, (ast.LtE, ast.GtE)):
                return True
            if same and isinstance(op, (ast.Lt, ast.Gt)):
                return False
            raise AnalysisError('ordering of two different symbolic axis lengths in `%s`' % short(node))
        dim_left = isinstance(a, Dim)
        other = b if dim_left else a
        if isinstance(other, bool) or not isinstance(other, int):
            if isinstance(op, ast.Eq):
                return False
            if isinstance(op, ast.NotEq):
                return True
            raise AnalysisError('comparison of a symbolic axis length with `%s` in `%s`' % (describe(other), short(node)))
        # the length is some integer >= 2
        if isinstance(op, ast.Eq):
            if other <= 1:
                return False
            raise AnalysisError('`%s` compares a symbolic axis length with %d' % (short(node), other))
        if isinstance(op, ast.NotEq):
            if other <= 1:
                return True
            raise AnalysisError('`%s` compares a symbolic axis length with %d' % (short(node), other))
        kind = type(op)
        if not dim_left:
            kind = {ast.Lt: ast.Gt, ast.Gt: ast.Lt, ast.LtE: ast.GtE, ast.GtE: ast.LtE}.get(kind, kind)
        if kind is ast.Gt:        # dim > other
            if other <= 1:
                return True
        elif kind is ast.GtE:
            if other <= 2:
                return True
        elif kind is ast.Lt:
            if other <= 2:
                return False
        elif kind is ast.LtE:
            if other <= 1:
                return False
        raise AnalysisError('`%s` compares a symbolic axis length with %d: not decided by "length >= 2"' % (short(node), other))

    @staticmethod
    def is_zero_literal(x):
        return isinstance(x, (int, float, complex)) and not isinstance(x, bool) and x == 0

    def py_compare(self, op, x, y, node):
        try:
            if isinstance(op, ast.Eq):
                return x == y
            if isinstance(op, ast.NotEq):
                return x != y
            if isinstance(op, ast.Lt):
                return x < y
            if isinstance(op, ast.LtE):
                return x <= y
            if isinstance(op, ast.Gt):
                return x > y
            if isinstance(op, ast.GtE):
                return x >= y
        except TypeError as err:
            raise Raised(self.builtin_exc('TypeError', str(err), node))
        raise AnalysisError('comparison operator in `%s`' % short(node))

    def e_Subscript(self, e, env, fi):
        v = self.eval(e.value, env, fi)
        if isinstance(e.slice, ast.Slice):
            if not isinstance(v, (list, tuple, str)):
                raise AnalysisError('slice of `%s` is outside the shape interpreter' % short(e.value))
            lo = self.eval(e.slice.lower, env, fi) if e.slice.lower is not None else None
            hi = self.eval(e.slice.upper, env, fi) if e.slice.upper is not None else None
            st = self.eval(e.slice.step, env, fi) if e.slice.step is not None else None
            if not all(x is None or (isinstance(x, int) and not isinstance(x, bool)) for x in (lo, hi, st)):
                raise AnalysisError('non-constant slice in `%s`' % short(e))
            return v[lo:hi:st]
        k = self.eval(e.slice, env, fi)
        if isinstance(v, dict) and isinstance(k, (str, int)):
            if k in v:
                return v[k]
            raise Raised(self.builtin_exc('KeyError', repr(k), e))
        if isinstance(v, (list, tuple, str)) and isinstance(k, int) and not isinstance(k, bool):
            try:
                return v[k]
            except IndexError:
                raise Raised(self.builtin_exc('IndexError', 'index out of range', e))
        raise AnalysisError('subscript `%s` is outside the shape interpreter' % short(e))

    def e_Attribute(self, e, env, fi):
        # external dotted names (np.dot, np.linalg.LinAlgError, ...)
        root = e
        while isinstance(root, ast.Attribute):
            root = root.value
        if isinstance(root, ast.Name) and root.id not in env:
            kind, obj = self.idx.resolve_name(fi.module, root.id)
            if kind in ('external', 'module'):
                d = self.idx.dotted_of(fi.module, e)
                if d is not None:
                    k2, o2 = self.idx.resolve_dotted(d)
                    if k2 == 'func':
                        return FuncV(o2)
                    if k2 == 'class':
                        return self.class_value(o2)
                    if k2 == 'external':
                        return self.external(d, e)
        v = self.eval(e.value, env, fi)
        return self.getattr(v, e.attr, e, fi)

    def getattr(self, v, attr, node, fi):
        if isinstance(v, Arr):
            if attr == 'ndim':
                return v.ndim
            if attr == 'shape':
                return v.shape
            if attr == 'size':
                if v.size1:
                    return 1
                return _Size(v.shape)
            if attr in ('shape_name', 'description'):
                return ''
            if attr == 'T':
                return Arr(tuple(reversed(v.shape)), lf_atom(('T', lf_frozen(v.val))), v.item, v.singular)
            m = self.find_method(v, attr)
            if m is not None:
                if m.is_property:
                    return self.call_function(m, [], bound=v, node=node)
                return FuncV(m, bound=v)
            if attr in NDARRAY_METHODS:
                return NdMethod(v, attr)
            raise AnalysisError('attribute .%s of an array is outside the shape interpreter' % attr)
        if isinstance(v, N):
            if attr in ('is_integer', 'item', 'conjugate'):
                return NumMethod(v, attr)
            if attr == 'real':
                return N(v.v.real, v.np)
            if attr == 'imag':
                return N(v.v.imag, v.np)
            raise Raised(self.builtin_exc('AttributeError', "number has no attribute '%s'" % attr, node))
        if isinstance(v, SuperV):
            if attr in NDARRAY_METHODS:
                return NdMethod(v.selfv, attr)
            raise AnalysisError('super().%s is outside the shape interpreter' % attr)
        if isinstance(v, ClassV):
            if v.ci is not None:
                k, val = self.idx.lookup_attr(v.ci, attr)
                if k is not None:
                    if self.class_attr is not None:
                        got = self.class_attr(v, attr, val)
                        if got is not NotImplemented:
                            return got
                    if isinstance(val, ast.Constant):
                        return val.value
                    return self.eval_class_attr(k, val)
                m = self.idx.lookup(v.ci, attr)
                if m is not None:
                    return FuncV(m)
            raise AnalysisError('attribute %s.%s is outside the shape interpreter' % (v.name, attr))
        if isinstance(v, ObjV):
            if attr in v.attrs:
                return v.attrs[attr]
            m = self.idx.lookup(v.ci, attr)
            if m is not None:
                if m.is_property:
                    return self.call_function(m, [], bound=v, node=node)
                return FuncV(m, bound=None if m.is_static else v)
            k, val = self.idx.lookup_attr(v.ci, attr)
            if val is not None:
                return self.eval_class_attr(k, val)
            raise Raised(self.builtin_exc('AttributeError', "object has no attribute '%s'" % attr, node))
        if isinstance(v, list):
            if attr in ('pop', 'append', 'insert', 'copy', 'reverse'):
                return ListMethod(v, attr)
        if isinstance(v, str):
            if attr in ('format', 'startswith', 'endswith', 'strip', 'lower', 'upper', 'join', 'replace'):
                return StrMethod(v, attr)
        if isinstance(v, ExcInst):
            if attr == 'args':
                return tuple(v.args)
            if attr == '__class__':
                return v.cls
        if isinstance(v, Foreign):
            raise Raised(self.builtin_exc('AttributeError', "object has no attribute '%s'" % attr, node))
        if isinstance(v, (int, float)) and not isinstance(v, bool) and attr == 'is_integer':
            return NumMethod(N(v), attr)
        raise AnalysisError('attribute `%s` is outside the shape interpreter' % short(node))

    def eval_class_attr(self, ci, val):
        """A class-level table: evaluated in the class namespace (its functions are plain functions there)."""
        env = {name: FuncV(m) for name, m in ci.methods.items()}
        for name, node in ci.attrs.items():
            if node is not val and isinstance(node, ast.Constant):
                env[name] = node.value
        return self.eval(val, env, _ModuleCtx(ci.module))

    def find_method(self, arr, name):
        """The package's own definition of a method on MathArray (None -> ndarray's)."""
        return self.idx.lookup(self.array_ci, name)

    # ----------------------------------------------------------------- calls
    def e_Call(self, e, env, fi):
        # super(...) needs the lexical context
        if isinstance(e.func, ast.Name) and e.func.id == 'super' and 'super' not in env:
            return self.make_super(e, env, fi)
        f = self.eval(e.func, env, fi)
        args = []
        for a in e.args:
            if isinstance(a, ast.Starred):
                raise AnalysisError('starred argument in `%s`' % short(e))
            args.append(self.eval(a, env, fi))
        kwargs = {}
        for k in e.keywords:
            if k.arg is None:
                raise AnalysisError('**kwargs in `%s`' % short(e))
            kwargs[k.arg] = self.eval(k.value, env, fi)
        return self.call(f, args, kwargs, e, fi)

    def make_super(self, e, env, fi):
        owner = fi.cls
        params = fi.params
        if e.args:
            if len(e.args) != 2:
                raise AnalysisError('super() form `%s`' % short(e))
            selfv = self.eval(e.args[1], env, fi)
            c = self.eval(e.args[0], env, fi)
            if not isinstance(c, ClassV) or c.ci is None or c.ci.qualname != self.array_q:
                raise AnalysisError('super() of a class other than the array class in `%s`' % short(e))
        else:
            if owner is None or not params:
                raise AnalysisError('zero-argument super() outside a method')
            if owner.qualname != self.array_q:
                raise AnalysisError('super() of a class other than the array class')
            selfv = env[params[0]]
        if not isinstance(selfv, Arr):
            raise AnalysisError('super() receiver is not an array descriptor')
        return SuperV(selfv, owner)

    def call(self, f, args, kwargs, node, fi):
        if isinstance(f, FuncV):
            return self.call_function(f.fi, args, kwargs, bound=f.bound, node=node)
        if isinstance(f, LambdaV):
            names = [x.arg for x in f.node.args.args]
            if kwargs or len(args) != len(names):
                raise AnalysisError('call of a lambda with a different number of arguments in `%s`' % short(node, 60))
            inner = dict(f.env)
            inner.update(zip(names, args))
            self.depth += 1
            try:
                if self.depth > MAX_DEPTH:
                    raise AnalysisError('call depth exceeded in a lambda')
                return self.eval(f.node.body, inner, f.fi)
            finally:
                self.depth -= 1
        if isinstance(f, NdMethod):
            return self.ndarray_method(f.selfv, f.name, args, node)
        if isinstance(f, NumMethod):
            return self.num_method(f.num, f.name, args, node)
        if isinstance(f, ListMethod):
            return self.list_method(f.lst, f.name, args, node)
        if isinstance(f, StrMethod):
            if f.name == 'format':
                return f.s
            if f.name == 'join' and len(args) == 1 and isinstance(args[0], (list, tuple)):
                return f.s.join(x if isinstance(x, str) else '' for x in args[0])
            if f.name == 'replace':
                return f.s
            if f.name in ('startswith', 'endswith') and len(args) == 1 and isinstance(args[0], str):
                return getattr(f.s, f.name)(args[0])
            if f.name in ('strip', 'lower', 'upper') and not args:
                return getattr(f.s, f.name)()
            raise AnalysisError('string method in `%s`' % short(node))
        if isinstance(f, ClassV):
            if f.is_exception:
                return ExcInst(f, args, node)
            if f.name == self.array_q:
                raise AnalysisError('construction of a MathArray in interpreted code (`%s`)' % short(node))
            if f.name in ('numbers.Number',):
                raise AnalysisError('call of an abstract class')
            if f.ci is not None and f.ci.module.name.startswith('mitxgraders') and not any(
                    b.split('.')[-1] in ('ndarray', 'ObjectWithSchema') for b in f.ci.mro):
                obj = ObjV(f.ci)
                init = self.idx.lookup(f.ci, '__init__')
                if init is not None:
                    self.call_function(init, args, kwargs, bound=obj, node=node)
                elif args or kwargs:
                    raise AnalysisError('class %s takes no arguments' % f.name)
                return obj
            raise AnalysisError('call of class %s is outside the shape interpreter' % f.name)
        if isinstance(f, BuiltinV):
            return self.builtin(f.name, args, kwargs, node, fi)
        if isinstance(f, ExtV):
            return self.ext_call(f.dotted, args, kwargs, node)
        raise AnalysisError('call `%s` is outside the shape interpreter' % short(node, 70))

    def builtin(self, name, args, kwargs, node, fi):
        if name == 'isinstance' and len(args) == 2:
            return self.isinstance(args[0], args[1], node)
        if name in ('float', 'complex', 'int') and len(args) == 1 and isinstance(args[0], Arr):
            if not args[0].size1:
                raise Raised(self.builtin_exc('TypeError', 'only length-1 arrays can be converted to Python scalars', node))
            args = [N(args[0].item.v)]
        if name == 'int' and len(args) == 1:
            v = args[0]
            if isinstance(v, N):
                if v.kind == 'complex':
                    raise Raised(self.builtin_exc('TypeError', "int() argument must not be complex", node))
                return N(int(v.v), False)
            if isinstance(v, (int, float)):
                return int(v)
            raise AnalysisError('int() of `%s`' % describe(v))
        if name == 'complex' and len(args) == 1 and isinstance(self.lift(args[0]), N):
            return N(complex(self.lift(args[0]).v), False)
        if name == 'float' and len(args) == 1:
            v = args[0]
            if isinstance(v, N):
                if v.kind == 'complex':
                    raise Raised(self.builtin_exc('TypeError', "float() argument must not be complex", node))
                return N(float(v.v), False)
            if isinstance(v, (int, float)):
                return float(v)
            raise AnalysisError('float() of `%s`' % describe(v))
        if name == 'str' and len(args) == 1:
            v = args[0]
            if isinstance(v, ExcInst):
                return v.message
            if isinstance(v, str):
                return v
            return ''
        if name == 'repr' and len(args) == 1:
            return ''
        if name == 'type' and len(args) == 1:
            return Opaque('type')
        if name == 'len' and len(args) == 1:
            v = args[0]
            if isinstance(v, (list, tuple, str)):
                return len(v)
            if isinstance(v, Arr):
                if v.ndim == 0:
                    raise Raised(self.builtin_exc('TypeError', 'len() of unsized object', node))
                return v.shape[0]
            raise AnalysisError('len() of `%s`' % describe(v))
        if name == 'bool' and len(args) == 1:
            return self.truth(args[0], node)
        if name == 'abs' and len(args) == 1 and isinstance(args[0], N):
            return N(abs(args[0].v), args[0].np)
        if name == 'abs' and len(args) == 1 and isinstance(args[0], (int, float, complex)) and not isinstance(args[0], bool):
            return abs(args[0])
        if name == 'round' and len(args) == 1 and isinstance(self.lift(args[0]), N):
            v = self.lift(args[0])
            if v.kind == 'complex':
                raise Raised(self.builtin_exc('TypeError', "type complex doesn't define __round__ method", node))
            return N(round(v.v), False)
        if name == 'next' and args and len(args) <= 2:
            src = args[0]
            if isinstance(src, LazyGen):
                for x in src:
                    return x
            elif isinstance(src, list):
                if src:
                    return src.pop(0)      # a generator function was run eagerly and handed out as a list
            else:
                raise AnalysisError('next() of `%s`' % describe(src))
            if len(args) == 2:
                return args[1]
            raise Raised(self.builtin_exc('StopIteration', '', node))
        if name in ('all', 'any') and len(args) == 1 and isinstance(args[0], LazyGen):
            for x in args[0]:
                t = self.truth(x, node)
                if name == 'any' and t:
                    return True
                if name == 'all' and not t:
                    return False
            return name == 'all'
        args = [list(a) if isinstance(a, LazyGen) else a for a in args]
        if name in ('tuple', 'list') and len(args) <= 1:
            if not args:
                return () if name == 'tuple' else []
            if isinstance(args[0], (list, tuple)):
                return tuple(args[0]) if name == 'tuple' else list(args[0])
        if name in ('all', 'any') and len(args) == 1 and isinstance(args[0], (list, tuple)):
            vals = [self.truth(x, node) for x in args[0]]
            return all(vals) if name == 'all' else any(vals)
        if name == 'reversed' and len(args) == 1 and isinstance(args[0], (list, tuple)):
            return list(reversed(args[0]))
        if name == 'enumerate' and len(args) == 1 and isinstance(args[0], (list, tuple)):
            return [(i, x) for i, x in enumerate(args[0])]
        if name == 'zip' and args and all(isinstance(a, (list, tuple)) for a in args):
            return [tuple(t) for t in zip(*args)]
        if name == 'iter' and len(args) == 1 and isinstance(args[0], (list, tuple)):
            return list(args[0])
        if name in ('max', 'min') and args and all(isinstance(x, int) and not isinstance(x, bool) for x in args):
            return max(args) if name == 'max' else min(args)
        if name == 'print':
            return None
        raise AnalysisError('builtin %s(...) in `%s` is outside the shape interpreter' % (name, short(node, 60)))

    def isinstance(self, v, c, node):
        cs = list(c) if isinstance(c, (tuple, list)) else [c]
        for k in cs:
            if isinstance(k, BuiltinV):
                k = ClassV(k.name, [k.name, 'object'])
            if not isinstance(k, ClassV):
                raise AnalysisError('isinstance against a non-class in `%s`' % short(node))
            if k.chain[0] in self.classes_of(v):
                return True
        return False

    def classes_of(self, v):
        """Names of the classes the concrete values described by v are instances of."""
        if isinstance(v, N):
            k = v.kind
            if not v.np:
                base = {'int': ['int', 'numbers.Integral', 'numbers.Real'], 'float': ['float', 'numbers.Real'],
                        'complex': ['complex']}[k]
                return set(base + ['numbers.Complex', 'numbers.Number', 'object'])
            # numpy scalars: float64 subclasses float, complex128 subclasses complex, int64 does not subclass int
            base = {'int': ['numpy.integer', 'numbers.Integral', 'numbers.Real'],
                    'float': ['numpy.floating', 'float', 'numbers.Real'],
                    'complex': ['numpy.complexfloating', 'complex']}[k]
            return set(base + ['numpy.number', 'numpy.generic', 'numbers.Complex', 'numbers.Number', 'object'])
        if isinstance(v, bool):
            return {'bool', 'int', 'numbers.Number', 'numbers.Integral', 'numbers.Real', 'numbers.Complex', 'object'}
        if isinstance(v, int):
            return {'int', 'numbers.Number', 'numbers.Integral', 'numbers.Real', 'numbers.Complex', 'object'}
        if isinstance(v, float):
            return {'float', 'numbers.Number', 'numbers.Real', 'numbers.Complex', 'object'}
        if isinstance(v, complex):
            return {'complex', 'numbers.Number', 'numbers.Complex', 'object'}
        if isinstance(v, Arr):
            chain = self.class_value(self.array_ci).chain
            return set(chain) | {'numpy.ndarray', 'object'}
        if isinstance(v, Dim):
            return {'int', 'numbers.Number', 'numbers.Integral', 'numbers.Real', 'numbers.Complex', 'object'}
        if isinstance(v, str):
            return {'str', 'object'}
        if isinstance(v, list):
            return {'list', 'object'}
        if isinstance(v, tuple):
            return {'tuple', 'object'}
        if isinstance(v, ExcInst):
            return set(v.cls.chain) | {'object'}
        if isinstance(v, ObjV):
            return set(v.ci.mro) | {'object'}
        if isinstance(v, (FuncV, LambdaV)):
            return {'function', 'object'}
        if isinstance(v, Foreign) or v is None:
            return {'object'}
        raise AnalysisError('isinstance of `%s` is outside the shape interpreter' % describe(v))

    def num_method(self, num, name, args, node):
        if name == 'is_integer' and not args:
            if num.kind == 'complex':
                raise Raised(self.builtin_exc('AttributeError', "'complex' object has no attribute 'is_integer'", node))
            return float(num.v).is_integer()
        if name == 'item' and not args:
            if not num.np:
                raise Raised(self.builtin_exc('AttributeError', "number has no attribute 'item'", node))
            return N(num.v, False, num.sym)
        if name == 'conjugate' and not args:
            return N(num.v.conjugate() if isinstance(num.v, complex) else num.v, num.np)
        raise AnalysisError('number method .%s' % name)

    def list_method(self, lst, name, args, node):
        if name == 'pop':
            if args and not (isinstance(args[0], int) and not isinstance(args[0], bool)):
                raise AnalysisError('list.pop with a non-constant index')
            try:
                return lst.pop(*args)
            except IndexError:
                raise Raised(self.builtin_exc('IndexError', 'pop from empty list', node))
        if name == 'append' and len(args) == 1:
            lst.append(args[0])
            return None
        if name == 'insert' and len(args) == 2 and isinstance(args[0], int):
            lst.insert(args[0], args[1])
            return None
        if name == 'copy' and not args:
            return list(lst)
        if name == 'reverse' and not args:
            lst.reverse()
            return None
        raise AnalysisError('list method .%s' % name)

    def e_ListComp(self, e, env, fi):
        if len(e.generators) != 1 or e.generators[0].is_async:
            raise AnalysisError('comprehension `%s` is outside the shape interpreter' % short(e, 60))
        g = e.generators[0]
        it = self.eval(g.iter, env, fi)
        if isinstance(it, LazyGen):
            it = list(it)
        if not isinstance(it, (list, tuple)):
            raise AnalysisError('comprehension over a non-list value in `%s`' % short(e, 60))
        out = []
        inner = dict(env)
        for x in it:
            self.assign(g.target, x, inner, fi)
            if all(self.truth(self.eval(c, inner, fi), c) for c in g.ifs):
                out.append(self.eval(e.elt, inner, fi))
        return out

    def e_GeneratorExp(self, e, env, fi):
        if len(e.generators) != 1 or e.generators[0].is_async:
            raise AnalysisError('comprehension `%s` is outside the shape interpreter' % short(e, 60))
        # the outermost iterable is evaluated at once (as in Python), the rest lazily
        it = self.eval(e.generators[0].iter, env, fi)
        if isinstance(it, LazyGen):
            it = list(it)
        if not isinstance(it, (list, tuple)):
            raise AnalysisError('generator over a non-list value in `%s`' % short(e, 60))
        return LazyGen(self, e, list(it), dict(env), fi)

    def e_Lambda(self, e, env, fi):
        a = e.args
        if a.vararg or a.kwarg or a.kwonlyargs or a.posonlyargs or a.defaults:
            raise AnalysisError('lambda `%s` has a signature outside the shape interpreter' % short(e, 60))
        return LambdaV(e, env, fi)

    # ----------------------------------------------------------------- arithmetic
    def e_BinOp(self, e, env, fi):
        op = OPS.get(type(e.op))
        if op is None:
            raise AnalysisError('operator in `%s` is outside the shape interpreter' % short(e))
        left = self.eval(e.left, env, fi)
        right = self.eval(e.right, env, fi)
        return self.binop(op, left, right, e)

    def binop(self, op, a, b, node=None, inplace=False):
        """Python's dispatch of `a op b` (or `a op= b`) over descriptors."""
        if op is None:
            raise AnalysisError('operator outside the shape interpreter')
        a = self.lift(a)
        b = self.lift(b)
        if isinstance(a, Arr):
            if inplace:
                m = self.find_method(a, '__i%s__' % op)
                if m is not None:
                    return self.call_function(m, [b], bound=a, node=node)
                # ndarray defines every in-place method itself, so Python never falls back to __op__
                return self.ndarray_method(a, '__i%s__' % op, [b], node)
            m = self.find_method(a, '__%s__' % op)
            if m is not None:
                return self.call_function(m, [b], bound=a, node=node)
            return self.ndarray_method(a, '__%s__' % op, [b], node)
        if isinstance(b, Arr):
            if isinstance(a, N) and a.np:
                # numpy scalar on the left: numpy handles the operation itself, MathArray.__rop__ is bypassed
                self.trace.add('NPLEFT', op=op, left=a, right=b, node=node)
                return self.ndarray_method(b, '__r%s__' % op, [a], node)
            m = self.find_method(b, '__r%s__' % op)
            if m is not None:
                return self.call_function(m, [a], bound=b, node=node)
            return self.ndarray_method(b, '__r%s__' % op, [a], node)
        if isinstance(a, N) and isinstance(b, N):
            return self.num_binop(op, a, b, node)
        if isinstance(a, str) and isinstance(b, str) and op == 'add':
            return a + b
        if isinstance(a, str) and op == 'mod':
            return a
        if isinstance(a, (tuple, list)) and type(a) is type(b) and op == 'add':
            return a + b
        if isinstance(a, Foreign) or isinstance(b, Foreign):
            raise Raised(self.builtin_exc('TypeError', 'unsupported operand type(s)', node))
        if isinstance(a, _Size) or isinstance(b, _Size):
            raise AnalysisError('arithmetic on a symbolic size in `%s`' % (short(node) if node is not None else op))
        raise AnalysisError('operands of `%s` are outside the shape interpreter' % (short(node) if node is not None else op))

    @staticmethod
    def lift(v):
        if isinstance(v, (int, float, complex)) and not isinstance(v, bool):
            return N(v)
        return v

    def num_binop(self, op, a, b, node):
        x, y = a.v, b.v
        try:
            if op == 'add':
                r = x + y
            elif op == 'sub':
                r = x - y
            elif op == 'mul':
                r = x * y
            elif op == 'truediv':
                r = x / y
            elif op == 'pow':
                r = x ** y
            elif op == 'mod':
                r = x % y
            elif op == 'floordiv':
                r = x // y
            else:
                raise AnalysisError('number operator %s' % op)
        except ZeroDivisionError as err:
            raise Raised(self.builtin_exc('ZeroDivisionError', str(err), node))
        except OverflowError as err:
            raise Raised(self.builtin_exc('OverflowError', str(err), node))
        except TypeError as err:
            raise Raised(self.builtin_exc('TypeError', str(err), node))
        sym = None
        if op == 'mul' and (a.sym is None) != (b.sym is None):
            sym = lf_scale(a.sym or b.sym, y if a.sym else x)
        elif op == 'truediv' and a.sym is not None and b.sym is None:
            sym = lf_scale(a.sym, 1.0 / y)
        elif op in ('add', 'sub') and a.sym is not None and b.sym is not None:
            sym = lf_add(a.sym, b.sym, 1 if op == 'add' else -1)
        self.trace.add('NUM', op=op, left=a, right=b)
        return N(r, a.np or b.np, sym)

    # ndarray's own special methods -------------------------------------------------
    def ndarray_method(self, a, name, args, node):
        if name == 'item':
            if args:
                raise AnalysisError('.item(index) is outside the shape interpreter')
            if not a.size1:
                raise Raised(self.builtin_exc('ValueError', 'can only convert an array of size 1 to a Python scalar', node))
            it = a.item
            return N(it.v, False, a.val if a.ndim > 0 and not _is_plain_atom(a.val) else it.sym)
        if name == 'copy' and not args:
            return a
        if name in ('transpose',) and not args:
            return Arr(tuple(reversed(a.shape)), lf_atom(('T', lf_frozen(a.val))), a.item, a.singular)
        core = name.strip('_')
        inplace = False
        reflected = False
        if core.startswith('i') and core[1:] in OPSYM and core not in OPSYM:
            inplace, core = True, core[1:]
        elif core.startswith('r') and core[1:] in OPSYM and core not in OPSYM:
            reflected, core = True, core[1:]
        if core not in OPSYM or len(args) != 1:
            raise AnalysisError('ndarray method %s is outside the shape interpreter' % name)
        return self.elementwise(core, a, self.lift(args[0]), node, reflected=reflected, inplace=inplace)

    def elementwise(self, op, a, x, node, reflected=False, inplace=False):
        """numpy's elementwise binary operation  a op x  (x op a when reflected)."""
        if isinstance(x, N):
            self.trace.add('EW', op=op, arr=a, other=x, reflected=reflected, broadcast=False, node=node, inplace=inplace)
            item = None
            if a.item is not None:
                l, r = (x, a.item) if reflected else (a.item, x)
                item = self.num_binop(op, N(l.v), N(r.v), node)
                item = N(item.v)
            return Arr(a.shape, self.scalar_val(op, a, x.v, not reflected, node), item, False)
        if isinstance(x, Arr):
            shape = dims_broadcast(a.shape, x.shape)
            if shape is None or (inplace and shape != a.shape):
                raise Raised(self.builtin_exc('ValueError', 'operands could not be broadcast together', node))
            self.trace.add('EW', op=op, arr=a, other=x, reflected=reflected, broadcast=(a.shape != x.shape), node=node,
                           inplace=inplace)
            l, r = (x, a) if reflected else (a, x)
            if op in ('add', 'sub') and a.shape == x.shape:
                val = lf_add(l.val, r.val, 1 if op == 'add' else -1)
            elif r.size1 and not l.size1:
                # a one-element array broadcasts like the number it holds (entries are the same; only the shape may grow)
                val = self.scalar_val(op, l, r.item.v, True, node)
            elif l.size1 and not r.size1:
                val = self.scalar_val(op, r, l.item.v, False, node)
            else:
                val = lf_product('ew_' + op, l.val, r.val)
            item = None
            if all(d == 1 for d in shape):
                item = N(self.num_binop(op, N(l.item.v), N(r.item.v), node).v)
            return Arr(shape, val, item, False)
        if isinstance(x, Foreign):
            raise Raised(self.builtin_exc('TypeError', 'unsupported operand type(s) for an ndarray operation', node))
        raise AnalysisError('ndarray operation with `%s`' % describe(x))

    def scalar_val(self, op, big, c, scalar_on_right, node):
        """Value identity of  big op c  (scalar on the right) or  c op big  for an elementwise numpy operation."""
        if op == 'add':
            return lf_add(big.val, lf_atom(('ones', big.shape), c)) if c != 0 else dict(big.val)
        if op == 'sub':
            sign = 1 if scalar_on_right else -1
            out = lf_scale(big.val, sign)
            return lf_add(out, lf_atom(('ones', big.shape), -c * sign)) if c != 0 else out
        if op == 'mul':
            return lf_scale(big.val, c)
        if op == 'truediv' and scalar_on_right:
            if c == 0:
                raise Raised(self.builtin_exc('ZeroDivisionError', 'division by zero (numpy error state: divide=call)', node))
            return lf_scale(big.val, 1.0 / c)
        return lf_atom(('ew_' + op + ('' if scalar_on_right else '_r'), lf_frozen(big.val), _round(c)))

    def ext_call(self, dotted, args, kwargs, node):
        if dotted == 'numpy.dot' and len(args) == 2 and not kwargs:
            a, b = self.lift(args[0]), self.lift(args[1])
            if isinstance(a, N) and isinstance(b, N):
                r = self.num_binop('mul', a, b, node)
                return N(r.v, True, r.sym)
            if isinstance(a, N) or isinstance(b, N):
                arr, num = (b, a) if isinstance(a, N) else (a, b)
                if not isinstance(arr, Arr):
                    raise AnalysisError('np.dot operand `%s`' % describe(arr))
                return self.elementwise('mul', arr, num, node)
            if not (isinstance(a, Arr) and isinstance(b, Arr)):
                raise AnalysisError('np.dot operands `%s`, `%s`' % (describe(a), describe(b)))
            shape = dot_shape(a.shape, b.shape)
            if shape is None:
                self.trace.add('DOT', left=a, right=b, ok=False, node=node)
                raise Raised(self.builtin_exc('ValueError', 'shapes not aligned', node))
            self.trace.add('DOT', left=a, right=b, ok=True, node=node)
            val = dot_val(a, b)
            if len(shape) == 0 and a.ndim > 0 and b.ndim > 0:
                return N(7.0, True, val)          # numpy scalar (np.float64 / np.complex128)
            item = N(7.0) if all(d == 1 for d in shape) else None
            return Arr(shape, val, item, False)
        if dotted == 'numpy.linalg.matrix_power' and len(args) == 2 and not kwargs:
            a, k = args[0], self.lift(args[1])
            if not isinstance(a, Arr):
                raise AnalysisError('matrix_power of `%s`' % describe(a))
            if a.ndim < 2:
                raise Raised(ExcInst(self.external('numpy.linalg.LinAlgError'), ('array must be at least two-dimensional',), node))
            if a.shape[-1] != a.shape[-2]:
                raise Raised(ExcInst(self.external('numpy.linalg.LinAlgError'), ('Last 2 dimensions of the array must be square',), node))
            # numpy.linalg works on the last two axes: a tensor with square trailing axes is treated as a stack of matrices
            if not isinstance(k, N):
                raise AnalysisError('matrix_power exponent `%s`' % describe(k))
            if k.kind != 'int':
                raise Raised(self.builtin_exc('TypeError', 'exponent must be an integer', node))
            self.trace.add('MPOW', arr=a, exp=k, node=node)
            if k.v < 0 and a.singular:
                raise Raised(ExcInst(self.external('numpy.linalg.LinAlgError'), ('Singular matrix',), node))
            item = None
            if a.size1:
                item = N(a.item.v ** k.v)
            return Arr(a.shape, lf_atom(('mpow', lf_frozen(a.val), k.v)), item, a.singular)
        if dotted.startswith('operator.') and dotted.split('.')[-1] in ('add', 'sub', 'mul', 'truediv', 'pow', 'mod', 'neg') and not kwargs:
            fn = dotted.split('.')[-1]
            if fn == 'neg' and len(args) == 1:
                return self.negate(args[0], node)
            if len(args) == 2:
                return self.binop(fn, args[0], args[1], node)
        if dotted in ('numpy.round', 'numpy.round_', 'numpy.around', 'numpy.rint', 'numpy.floor', 'numpy.ceil', 'numpy.trunc',
                      'numpy.abs', 'numpy.absolute', 'numpy.real', 'numpy.imag') and len(args) == 1 and not kwargs \
                and isinstance(self.lift(args[0]), N):
            import math
            v = self.lift(args[0]).v
            fn = dotted.split('.')[-1]
            if fn in ('abs', 'absolute'):
                return N(abs(v), True)
            if fn == 'real':
                return N(v.real if isinstance(v, complex) else v, True)
            if fn == 'imag':
                return N(v.imag if isinstance(v, complex) else 0.0, True)
            if isinstance(v, complex):
                if fn in ('round', 'round_', 'around', 'rint'):
                    return N(complex(round(v.real), round(v.imag)), True)
                raise Raised(self.builtin_exc('TypeError', 'ufunc %s not supported for complex input' % fn, node))
            r = {'round': round, 'round_': round, 'around': round, 'rint': round, 'floor': math.floor, 'ceil': math.ceil,
                 'trunc': math.trunc}[fn](v)
            return N(float(r), True)        # numpy rounds half to even like Python and returns a float scalar
        raise AnalysisError('call of %s is outside the numpy model of the shape interpreter (`%s`)' % (dotted, short(node, 60)))


class _Size(object):
    """The element count of an array with more than one element: only `== 1` / `!= 1` / `> 1` style tests are exact."""
    def __init__(self, shape):
        self.shape = shape

    def _cmp(self, other, kind):
        if isinstance(other, int) and not isinstance(other, bool) and other <= 1:
            return {'eq': False, 'ne': True, 'lt': False, 'le': False, 'gt': True, 'ge': True}[kind]
        raise AnalysisError('comparison of a symbolic array size with %r is outside the abstract domain' % (other,))

    def __eq__(self, o):
        return self._cmp(o, 'eq')

    def __ne__(self, o):
        return self._cmp(o, 'ne')

    def __lt__(self, o):
        return self._cmp(o, 'lt')

    def __le__(self, o):
        return self._cmp(o, 'le')

    def __gt__(self, o):
        return self._cmp(o, 'gt')

    def __ge__(self, o):
        return self._cmp(o, 'ge')

    __hash__ = None


class _ModuleCtx(object):
    """Minimal stand-in for a FuncInfo when evaluating a module-level expression."""
    def __init__(self, module):
        self.module = module
        self.cls = None
        self.params = []
        self.qualname = module.name


def _is_plain_atom(lf):
    a, c = lf_single(lf)
    return a is not None and isinstance(a, tuple) and a[0] == 'arr' and c == 1


NDARRAY_METHODS = {'item', 'copy', 'transpose'}
for _o in list(OPSYM):
    NDARRAY_METHODS |= {'__%s__' % _o, '__r%s__' % _o, '__i%s__' % _o}


# ------------------------------------------------------------------------ convenience drivers
def run_binary(idx, array_class, op, left, right, inplace=False, class_attr=None):
    """Outcome of `left op right` (or `left op= right`) under Python's operator dispatch."""
    it = Interp(idx, array_class, class_attr)
    return it.run(lambda: it.binop(op, left, right, None, inplace=inplace))


def run_function(idx, array_class, qualname, args, kwargs=None, class_attr=None):
    it = Interp(idx, array_class, class_attr)
    fi = idx.func(qualname)
    return it.run(lambda: it.call_function(fi, list(args), kwargs))
