"""Sensitivity self-test and benign-variant battery (thorough tier), all in memory.

Mutants are (file, old text, new text) edits of the *current* source.  An edit whose
old text no longer occurs exactly once is skipped ("anchor edited") -- the self-test
never turns a legitimate edit of /repo into a failure.  For files whose normalised
AST digest still equals the digest recorded when the seeds were last confirmed
(sa/selftest_digests.json), a mutant that is not reported as a VIOLATION, or a benign
variant that is not silent, is a *checker defect* (exit 2, never a VIOLATION).
"""
import ast
import copy
import hashlib
import json
import os
from concurrent.futures import ProcessPoolExecutor

from .index import REPO, set_parents, walk_own, local_names

HERE = os.path.dirname(os.path.abspath(__file__))
DIGESTS = os.path.join(HERE, 'selftest_digests.json')


class Mutant(object):
    def __init__(self, name, path, old, new, rule=None, note=''):
        self.name = name
        self.path = path
        self.old = old
        self.new = new
        self.rule = rule
        self.note = note


class Benign(object):
    def __init__(self, name, path, old, new):
        self.name = name
        self.path = path
        self.old = old
        self.new = new


def _read(root, rel):
    with open(os.path.join(root or REPO, rel), encoding='utf-8') as f:
        return f.read()


def file_digest(src):
    try:
        return hashlib.sha1(ast.dump(ast.parse(src), annotate_fields=False).encode()).hexdigest()[:16]
    except SyntaxError:
        return 'syntax-error'


def apply_edit(src, old, new):
    """One textual edit, or several in the same file when `old` is a list of (old, new) pairs (then `new` is ignored)."""
    if isinstance(old, (list, tuple)):
        out = src
        for o, n in old:
            if out.count(o) != 1:
                return None
            out = out.replace(o, n)
    else:
        if src.count(old) != 1:
            return None
        out = src.replace(old, new)
    try:
        ast.parse(out)
    except SyntaxError:
        return 'SYNTAX'
    return out


# ------------------------------------------------------------ generic benign variants
def _roundtrip(src):
    return ast.unparse(ast.parse(src))


class _Probe(ast.NodeTransformer):
    def visit_FunctionDef(self, node):
        self.generic_visit(node)
        probe = ast.parse('_sa_probe = 0').body[0]
        i = 1 if (node.body and isinstance(node.body[0], ast.Expr) and isinstance(node.body[0].value, ast.Constant)
                  and isinstance(node.body[0].value.value, str)) else 0
        node.body.insert(i, probe)
        return node


def _probe(src):
    t = _Probe().visit(ast.parse(src))
    ast.fix_missing_locations(t)
    return ast.unparse(t)


class _AugExpand(ast.NodeTransformer):
    def visit_AugAssign(self, node):
        if isinstance(node.value, (ast.List, ast.ListComp, ast.Dict, ast.Set)):
            return node
        if not isinstance(node.target, (ast.Name, ast.Subscript)):
            return node
        if isinstance(node.target, ast.Name) and not isinstance(node.op, (ast.Mult, ast.Sub, ast.Div)):
            return node      # `x += y` may be an in-place list/str extension; keep
        load = copy.deepcopy(node.target)
        for n in ast.walk(load):
            if hasattr(n, 'ctx'):
                n.ctx = ast.Load()
        return ast.copy_location(ast.Assign(targets=[node.target],
                                            value=ast.BinOp(left=load, op=node.op, right=node.value)), node)


def _augexpand(src):
    t = _AugExpand().visit(ast.parse(src))
    ast.fix_missing_locations(t)
    return ast.unparse(t)


class _CmpFlip(ast.NodeTransformer):
    FLIP = {ast.Lt: ast.Gt, ast.Gt: ast.Lt, ast.LtE: ast.GtE, ast.GtE: ast.LtE}

    def visit_Compare(self, node):
        self.generic_visit(node)
        if len(node.ops) == 1 and type(node.ops[0]) in self.FLIP:
            return ast.copy_location(ast.Compare(left=node.comparators[0], ops=[self.FLIP[type(node.ops[0])]()],
                                                 comparators=[node.left]), node)
        return node


def _cmpflip(src):
    t = _CmpFlip().visit(ast.parse(src))
    ast.fix_missing_locations(t)
    return ast.unparse(t)


def _rename_locals(src):
    tree = ast.parse(src)
    set_parents(tree)
    for fn in [n for n in ast.walk(tree) if isinstance(n, ast.FunctionDef)]:
        nested = [n for n in ast.walk(fn) if n is not fn and isinstance(n, (ast.FunctionDef, ast.Lambda, ast.ClassDef))]
        if nested:
            continue
        if any(isinstance(n, (ast.Global, ast.Nonlocal)) for n in ast.walk(fn)):
            continue
        if any(isinstance(n, ast.Name) and n.id in ('locals', 'vars', 'eval', 'exec') for n in ast.walk(fn)):
            continue
        a = fn.args
        params = {x.arg for x in a.posonlyargs + a.args + a.kwonlyargs}
        if a.vararg:
            params.add(a.vararg.arg)
        if a.kwarg:
            params.add(a.kwarg.arg)
        stored = {n.id for n in ast.walk(fn) if isinstance(n, ast.Name) and isinstance(n.ctx, (ast.Store, ast.Del))}
        handlers = {n.name for n in ast.walk(fn) if isinstance(n, ast.ExceptHandler) and n.name}
        imported = set()
        for n in ast.walk(fn):
            if isinstance(n, (ast.Import, ast.ImportFrom)):
                imported |= {(al.asname or al.name).split('.')[0] for al in n.names}
        ren = {v for v in stored if v not in params and v not in handlers and v not in imported and not v.startswith('__')}
        for n in ast.walk(fn):
            if isinstance(n, ast.Name) and n.id in ren:
                n.id = n.id + '_rn'
    return ast.unparse(tree)


GENERIC_BENIGN = [('roundtrip', _roundtrip), ('probe-statements', _probe), ('augassign-expanded', _augexpand),
                  ('comparison-flipped', _cmpflip), ('locals-renamed', _rename_locals)]


# ------------------------------------------------------------------- worker
def _run_variant(args):
    prop, root, overlay, label = args
    from . import run
    try:
        ctx, mod = run.run_rules(prop, overlay=overlay, root=root)
        v, u = run.violations_of(ctx)
        return label, [(o.rule, o.construct, o.detail) for o in v], [(o.rule, o.construct, o.detail) for o in u], None
    except Exception as e:  # pragma: no cover
        import traceback
        return label, [], [], traceback.format_exc()


def run(prop, mod, root=None, jobs=16, record=False, verbose=False):
    root = root or REPO
    mutants = list(getattr(mod, 'MUTANTS', []))
    files = list(getattr(mod, 'FILES', []))
    sources = {}
    for rel in set(files) | {m.path for m in mutants} | {b.path for b in getattr(mod, 'BENIGN', [])}:
        sources[rel] = _read(root, rel)
    recorded = {}
    if os.path.exists(DIGESTS):
        with open(DIGESTS) as f:
            recorded = json.load(f)
    rec = recorded.get(prop, {})
    current = {rel: file_digest(src) for rel, src in sources.items()}
    gated = {rel: rec.get(rel) == current[rel] for rel in sources}

    tasks = []
    skipped = []
    defects = []
    for m in mutants:
        out = apply_edit(sources[m.path], m.old, m.new)
        if out is None:
            skipped.append(m.name)
            if gated.get(m.path):
                defects.append('mutant %s: seed text not found although %s is unchanged' % (m.name, m.path))
            continue
        if out == 'SYNTAX':
            defects.append('mutant %s does not parse' % m.name)
            continue
        tasks.append(('mutant', m, (prop, root, {m.path: out}, m.name)))
    for label, fnc in GENERIC_BENIGN:
        overlay = {}
        ok = True
        for rel in files:
            try:
                overlay[rel] = fnc(sources[rel])
            except Exception as e:  # pragma: no cover
                ok = False
                defects.append('benign transformation %s failed on %s: %s' % (label, rel, e))
        if ok:
            tasks.append(('benign', label, (prop, root, overlay, label)))
    for b in getattr(mod, 'BENIGN', []):
        out = apply_edit(sources[b.path], b.old, b.new)
        if out is None:
            skipped.append(b.name)
            continue
        if out == 'SYNTAX':
            defects.append('benign variant %s does not parse' % b.name)
            continue
        tasks.append(('benign', b.name, (prop, root, {b.path: out}, b.name)))

    # the filed corpora, as overlays: seeded breaking changes of this property must be reported, verified
    # behaviour-preserving refactorings must not raise a VIOLATION (exit 2 on them is counted, not fatal)
    from . import patch as patchmod
    verif = os.path.dirname(HERE)

    def reader(rel):
        try:
            return _read(root, rel)
        except OSError:
            return None
    corpus_skipped = 0
    for sid, meta, diff in patchmod.corpus(verif, 'seeded'):
        if meta.get('property') != prop:
            continue
        ov = patchmod.apply(diff, reader)
        if ov is None:
            corpus_skipped += 1
            continue
        tasks.append(('seed', sid, (prop, root, ov, sid)))
    for rid, meta, diff in patchmod.corpus(verif, 'benign'):
        ov = patchmod.apply(diff, reader)
        if ov is None:
            corpus_skipped += 1
            continue
        if not any(rel in files for rel in ov):
            continue      # does not touch a file this property is anchored in
        tasks.append(('refactoring', rid, (prop, root, ov, rid)))

    if jobs > 1 and len(tasks) > 1:
        with ProcessPoolExecutor(max_workers=min(jobs, len(tasks))) as ex:
            results = list(ex.map(_run_variant, [t[2] for t in tasks]))
    else:
        results = [_run_variant(t[2]) for t in tasks]

    killed = mt = bt = bs = 0
    seeds_total = seeds_caught = refac_total = refac_silent = refac_undecided = 0
    details = []
    corpus_notes = []
    for (kind, spec, _), (label, viols, unds, err) in zip(tasks, results):
        if err:
            defects.append('%s %s crashed the checker: %s' % (kind, label, err.strip().splitlines()[-1]))
            continue
        if kind == 'seed':
            seeds_total += 1
            if viols:
                seeds_caught += 1
            else:
                corpus_notes.append('seeded change %s is not reported%s' % (label, ' (analysis-error)' if unds else ''))
            continue
        if kind == 'refactoring':
            refac_total += 1
            if viols:
                corpus_notes.append('FALSE ALARM on verified refactoring %s: %s %s' % (label, viols[0][0], viols[0][2][:160]))
                if all(gated.get(r) for r in files):
                    defects.append('false alarm on verified behaviour-preserving refactoring %s: %s' % (label, viols[0][0]))
            elif unds:
                refac_undecided += 1
            else:
                refac_silent += 1
            continue
        if kind == 'mutant':
            mt += 1
            hit = [v for v in viols if spec.rule is None or ('.' + spec.rule) in v[0] or v[0].endswith(spec.rule)]
            if viols:
                killed += 1
                details.append({'mutant': label, 'killed_by': sorted({v[0] for v in viols})[:4]})
                if spec.rule and not hit and verbose:
                    print('   note: %s killed by %s, expected %s' % (label, sorted({v[0] for v in viols}), spec.rule))
            else:
                details.append({'mutant': label, 'killed_by': [], 'undecided': sorted({u[0] for u in unds})[:4]})
                msg = 'mutant %s (%s) not reported as a violation%s' % (
                    label, spec.path, ' (analysis-error: %s)' % unds[0][2] if unds else '')
                if gated.get(spec.path):
                    defects.append(msg)
                if verbose:
                    print('   SURVIVED: ' + msg)
        else:
            bt += 1
            if not viols and not unds:
                bs += 1
            else:
                what = viols[0] if viols else unds[0]
                msg = 'benign variant %s raised %s: %s %s: %s' % (label, 'VIOLATION' if viols else 'ANALYSIS-ERROR',
                                                                  what[0], what[1], what[2])
                rels = files if isinstance(spec, str) and spec in dict(GENERIC_BENIGN) else files
                if all(gated.get(r) for r in rels) or verbose:
                    if all(gated.get(r) for r in rels):
                        defects.append(msg)
                    if verbose:
                        print('   NOT SILENT: ' + msg)
    if record:
        recorded[prop] = current
        with open(DIGESTS, 'w') as f:
            json.dump(recorded, f, indent=1, sort_keys=True)
            f.write('\n')
        defects = [d for d in defects if 'not reported' in d or 'raised' in d or 'crashed' in d or 'parse' in d]
    if verbose:
        for n in corpus_notes:
            print('   ' + n)
    return {'seeded_changes_run': seeds_total, 'seeded_changes_reported': seeds_caught,
            'refactorings_run': refac_total, 'refactorings_silent': refac_silent, 'refactorings_analysis_error': refac_undecided,
            'corpus_patches_not_applicable': corpus_skipped, 'corpus_notes': corpus_notes[:20],
            'mutants_total': mt, 'mutants_killed': killed, 'mutants_skipped': len(skipped),
            'benign_total': bt, 'benign_silent': bs, 'defects': defects,
            'mutant_details': details, 'digest_gated_files': sorted(r for r, g in gated.items() if g)}
