"""E4: statement-level control-flow graph with exceptional edges, and path queries.

Nodes stand for simple statements, for the *head* of compound statements (the test of
`if`/`while`, the iterator step of `for`, the context expression of `with`, an
`except` clause) and for three synthetic points: ENTRY, EXIT_RETURN, EXIT_RAISE.
`finally` bodies (and the implicit `__exit__` of `with`) are duplicated per
continuation kind (normal / return / raise / break / continue) so that the path
queries below are exact for the graph.

All queries are reachability questions on the graph with some nodes or edges removed
("does every path from A to an exit pass through B" == "no exit is reachable from A
once B is deleted"), which is equivalent to the dominator / post-dominator formulation
and needs no path enumeration.  `enumerate_paths` is an independent, bounded
implementation used by the thorough tier as a cross-check.
"""
import ast

from .index import AnalysisError, unparse

TOTAL_BUILTINS = {
    'len', 'isinstance', 'str', 'set', 'list', 'dict', 'tuple', 'range', 'enumerate', 'zip',
    'bool', 'id', 'type', 'repr', 'callable', 'hasattr', 'issubclass', 'frozenset', 'sorted',
}


class Node(object):
    __slots__ = ('kind', 'ast', 'tag', 'succs', 'preds', 'idx', 'in_try')

    def __init__(self, kind, node=None, tag=None, idx=0):
        self.kind = kind
        self.ast = node
        self.tag = tag
        self.succs = []   # (Node, label)
        self.preds = []   # (Node, label)
        self.idx = idx
        self.in_try = False

    @property
    def lineno(self):
        return getattr(self.ast, 'lineno', 0)

    def __repr__(self):
        if self.ast is None:
            return '<%s>' % self.kind
        text = ' '.join(unparse(self.ast).split())
        if self.kind in ('test', 'for', 'with', 'handler'):
            text = text.split(':')[0]
        return '<%s%s L%d %s>' % (self.kind, '/' + str(self.tag) if self.tag else '', self.lineno, text[:60])


class _Frame(object):
    def __init__(self, type_, **kw):
        self.type = type_
        self.__dict__.update(kw)


def expr_may_raise(node):
    """Conservative: can evaluating this expression raise?"""
    if node is None:
        return False
    for n in ast.walk(node):
        if isinstance(n, ast.Call):
            if isinstance(n.func, ast.Name) and n.func.id in TOTAL_BUILTINS:
                continue
            return True
        if isinstance(n, (ast.Subscript, ast.BinOp, ast.Await, ast.Yield, ast.YieldFrom)):
            return True
        if isinstance(n, ast.Compare) and not all(isinstance(o, (ast.Is, ast.IsNot)) for o in n.ops):
            # rich comparisons / `in` may call user code; treat as raising only when operands are calls
            continue
    return False


def head_exprs(stmt):
    """Expressions evaluated by the head node of a statement."""
    if isinstance(stmt, (ast.If, ast.While)):
        return [stmt.test]
    if isinstance(stmt, (ast.For, ast.AsyncFor)):
        return [stmt.iter, stmt.target]
    if isinstance(stmt, (ast.With, ast.AsyncWith)):
        return [i.context_expr for i in stmt.items]
    if isinstance(stmt, (ast.FunctionDef, ast.AsyncFunctionDef, ast.ClassDef)):
        return list(stmt.decorator_list)
    if isinstance(stmt, ast.Try):
        return []
    if isinstance(stmt, ast.ExceptHandler):
        return []
    return [stmt]


class CFG(object):
    def __init__(self, fn, may_raise_outside_try=True):
        self.fn = fn
        self.nodes = []
        self.entry = self._new('entry')
        self.exit_return = self._new('exit_return')
        self.exit_raise = self._new('exit_raise')
        self.frames = []
        self.may_raise_outside_try = may_raise_outside_try
        body = fn.body if isinstance(fn.body, list) else [ast.Return(value=fn.body)]
        ends = self._block(body, [(self.entry, 'next')])
        self._connect(ends, self.exit_return)   # fall off the end == return None
        self._by_ast = {}
        for n in self.nodes:
            if n.ast is not None:
                self._by_ast.setdefault(id(n.ast), []).append(n)

    # ----------------------------------------------------------------- building
    def _new(self, kind, node=None, tag=None):
        n = Node(kind, node, tag, len(self.nodes))
        n.in_try = any(f.type in ('try', 'finally') for f in getattr(self, 'frames', []))
        self.nodes.append(n)
        return n

    def _connect(self, preds, node, label=None):
        for p, lab in preds:
            lab = label or lab
            if (node, lab) not in p.succs:
                p.succs.append((node, lab))
                node.preds.append((p, lab))

    def _block(self, stmts, preds):
        for s in stmts:
            preds = self._stmt(s, preds)
        return preds

    def _raise_from(self, node):
        self._leave([(node, 'exc')], 'raise', len(self.frames))

    def _leave(self, preds, kind, depth, loop=None):
        """Route control leaving through frames[depth-1] ... outward for `kind`."""
        i = depth
        while i > 0 and preds:
            i -= 1
            fr = self.frames[i]
            if fr.type == 'try' and kind == 'raise':
                for h in fr.handler_nodes:
                    self._connect(preds, h)
                if fr.catch_all:
                    return
            elif fr.type == 'finally':
                key = (kind, id(loop) if loop is not None else None)
                if key not in fr.copies:
                    saved = self.frames
                    self.frames = saved[:i]
                    head = self._new(fr.head_kind, fr.stmt, tag=kind)
                    ends = self._block(fr.body, [(head, 'next')])
                    self.frames = saved
                    fr.copies[key] = head
                    self._connect(preds, head)
                    self._leave(ends, kind, i, loop)
                else:
                    self._connect(preds, fr.copies[key])
                return
            elif fr.type == 'loop' and kind in ('break', 'continue') and fr.stmt is loop:
                if kind == 'break':
                    fr.breaks.extend(preds)
                else:
                    self._connect(preds, fr.head)
                return
        if not preds:
            return
        if kind == 'raise':
            self._connect(preds, self.exit_raise)
        elif kind == 'return':
            self._connect(preds, self.exit_return)
        else:
            raise AnalysisError('%s outside loop' % kind)

    def _maybe_exc(self, node, exprs):
        in_try = any(f.type in ('try', 'finally') for f in self.frames)
        if not (in_try or self.may_raise_outside_try):
            return
        if in_try or any(expr_may_raise(e) for e in exprs):
            self._raise_from(node)

    def _innermost_loop(self):
        for fr in reversed(self.frames):
            if fr.type == 'loop':
                return fr.stmt
        raise AnalysisError('break/continue outside loop')

    def _stmt(self, s, preds):
        if isinstance(s, ast.If):
            t = self._new('test', s)
            self._connect(preds, t)
            self._maybe_exc(t, [s.test])
            const = _const_truth(s.test)
            ends = []
            if const is not False:
                ends += self._block(s.body, [(t, 'true')])
            if const is not True:
                ends += self._block(s.orelse, [(t, 'false')]) if s.orelse else [(t, 'false')]
            return ends
        if isinstance(s, ast.While):
            t = self._new('test', s)
            self._connect(preds, t)
            self._maybe_exc(t, [s.test])
            fr = _Frame('loop', stmt=s, head=t, breaks=[])
            self.frames.append(fr)
            body_ends = self._block(s.body, [(t, 'true')])
            self.frames.pop()
            self._connect(body_ends, t, 'back')
            ends = list(fr.breaks)
            if _const_truth(s.test) is not True:
                ends += self._block(s.orelse, [(t, 'false')]) if s.orelse else [(t, 'false')]
            return ends
        if isinstance(s, (ast.For, ast.AsyncFor)):
            h = self._new('for', s)
            self._connect(preds, h)
            self._maybe_exc(h, [s.iter])
            fr = _Frame('loop', stmt=s, head=h, breaks=[])
            self.frames.append(fr)
            body_ends = self._block(s.body, [(h, 'true')])
            self.frames.pop()
            self._connect(body_ends, h, 'back')
            ends = list(fr.breaks)
            ends += self._block(s.orelse, [(h, 'false')]) if s.orelse else [(h, 'false')]
            return ends
        if isinstance(s, (ast.With, ast.AsyncWith)):
            w = self._new('with', s)
            self._connect(preds, w)
            self._maybe_exc(w, [i.context_expr for i in s.items])
            fr = _Frame('finally', stmt=s, body=[], copies={}, head_kind='with_exit')
            self.frames.append(fr)
            ends = self._block(s.body, [(w, 'next')])
            self.frames.pop()
            x = self._new('with_exit', s, tag='normal')
            self._connect(ends, x)
            return [(x, 'next')]
        if isinstance(s, ast.Try):
            return self._try(s, preds)
        if hasattr(ast, 'TryStar') and isinstance(s, ast.TryStar):
            raise AnalysisError('try* not supported')
        if hasattr(ast, 'Match') and isinstance(s, ast.Match):
            raise AnalysisError('match statement not supported')
        n = self._new('stmt', s)
        self._connect(preds, n)
        if isinstance(s, ast.Return):
            self._maybe_exc(n, [s.value])
            self._leave([(n, 'return')], 'return', len(self.frames))
            return []
        if isinstance(s, ast.Raise):
            self._leave([(n, 'exc')], 'raise', len(self.frames))
            return []
        if isinstance(s, ast.Break):
            self._leave([(n, 'break')], 'break', len(self.frames), self._innermost_loop())
            return []
        if isinstance(s, ast.Continue):
            self._leave([(n, 'continue')], 'continue', len(self.frames), self._innermost_loop())
            return []
        if isinstance(s, (ast.Pass, ast.Global, ast.Nonlocal, ast.Import, ast.ImportFrom)):
            return [(n, 'next')]
        if isinstance(s, (ast.FunctionDef, ast.AsyncFunctionDef, ast.ClassDef)):
            return [(n, 'next')]
        if isinstance(s, ast.Assert):
            self._raise_from(n)
            return [(n, 'next')]
        self._maybe_exc(n, [s])
        return [(n, 'next')]

    def _try(self, s, preds):
        has_final = bool(s.finalbody)
        if has_final:
            ffr = _Frame('finally', stmt=s, body=s.finalbody, copies={}, head_kind='finally')
            self.frames.append(ffr)
        handler_nodes = [self._new('handler', h) for h in s.handlers]
        catch_all = any(_is_catch_all(h) for h in s.handlers)
        tfr = _Frame('try', stmt=s, handler_nodes=handler_nodes, catch_all=catch_all)
        self.frames.append(tfr)
        body_ends = self._block(s.body, preds)
        self.frames.pop()
        ends = self._block(s.orelse, body_ends) if s.orelse else body_ends
        for h, hn in zip(s.handlers, handler_nodes):
            ends = ends + self._block(h.body, [(hn, 'next')])
        if has_final:
            self.frames.pop()
            head = self._new('finally', s, tag='normal')
            self._connect(ends, head)
            ends = self._block(s.finalbody, [(head, 'next')])
        return ends

    # ------------------------------------------------------------------ queries
    def nodes_of(self, ast_node):
        return list(self._by_ast.get(id(ast_node), []))

    def stmt_nodes(self, pred=None, kinds=('stmt', 'test', 'for', 'with')):
        return [n for n in self.nodes if n.kind in kinds and n.ast is not None and (pred is None or pred(n.ast))]

    def nodes_containing(self, expr):
        """CFG nodes whose head expressions contain the given AST expression node."""
        from .index import enclosing_stmt
        st = enclosing_stmt(expr)
        out = []
        while st is not None:
            cands = self.nodes_of(st)
            if cands:
                heads = head_exprs(st)
                if any(expr is e or any(expr is x for x in ast.walk(e)) for e in heads):
                    return cands
            from .index import parent
            st = parent(st)
            while st is not None and not isinstance(st, (ast.stmt, ast.ExceptHandler)):
                st = parent(st)
        return out

    def reach(self, starts, blocked=(), blocked_edges=(), include_starts=True, labels=None):
        blocked = set(blocked)
        blocked_edges = set(blocked_edges)
        seen = set()
        stack = []
        for s in starts:
            if include_starts:
                if s not in blocked:
                    stack.append(s)
            else:
                for t, lab in s.succs:
                    if (s, t, lab) in blocked_edges or (s, lab) in blocked_edges:
                        continue
                    if labels is not None and lab not in labels:
                        continue
                    if t not in blocked:
                        stack.append(t)
        while stack:
            n = stack.pop()
            if n in seen:
                continue
            seen.add(n)
            for t, lab in n.succs:
                if t in blocked or t in seen:
                    continue
                if (n, t, lab) in blocked_edges or (n, lab) in blocked_edges:
                    continue
                if labels is not None and lab not in labels:
                    continue
                stack.append(t)
        return seen

    def reachable_nodes(self):
        return self.reach([self.entry])

    def exits(self, which='all'):
        if which == 'return':
            return [self.exit_return]
        if which == 'raise':
            return [self.exit_raise]
        return [self.exit_return, self.exit_raise]

    def must_pass(self, starts, through, exits='all', after=True):
        """Every path from (just after) `starts` to the chosen exits passes a node of `through`."""
        ex = self.exits(exits) if isinstance(exits, str) else list(exits)
        r = self.reach(starts, blocked=through, include_starts=not after)
        res = not any(e in r for e in ex)
        if QUERY_LOG is not None:
            QUERY_LOG.append((self, 'must_pass', list(starts), list(through), ex, after, res))
        return res

    def witness_path(self, starts, avoiding, targets, after=True):
        """A path from starts to one of targets avoiding `avoiding` (list of nodes) or None."""
        avoiding = set(avoiding)
        targets = set(targets)
        prev = {}
        queue = []
        for s in starts:
            if after:
                for t, lab in s.succs:
                    if t not in avoiding and t not in prev:
                        prev[t] = s
                        queue.append(t)
            elif s not in avoiding:
                prev[s] = None
                queue.append(s)
        while queue:
            n = queue.pop(0)
            if n in targets:
                path = [n]
                while prev.get(path[-1]) is not None and path[-1] not in starts:
                    path.append(prev[path[-1]])
                return list(reversed(path))
            for t, lab in n.succs:
                if t not in avoiding and t not in prev:
                    prev[t] = n
                    queue.append(t)
        return None

    def dominates(self, doms, targets):
        """Every path from ENTRY to any of `targets` passes a node of `doms`."""
        r = self.reach([self.entry], blocked=doms)
        res = not any(t in r for t in targets)
        if QUERY_LOG is not None:
            QUERY_LOG.append((self, 'dominates', [self.entry], list(doms), list(targets), False, res))
        return res

    def reaches(self, starts, targets, blocked=(), after=True):
        r = self.reach(starts, blocked=blocked, include_starts=not after)
        return any(t in r for t in targets)

    def only_via_edge(self, test_node, label, targets):
        """`targets` are reachable from ENTRY only through the (test_node, label) edge."""
        r = self.reach([self.entry], blocked_edges=[(test_node, label)])
        return not any(t in r for t in targets)

    def always_raises_from(self, starts, after=False):
        """From `starts`, EXIT_RETURN is unreachable (every path ends in a raise)."""
        r = self.reach(starts, include_starts=not after)
        return self.exit_return not in r

    def enumerate_paths(self, start, limit=10000, exits=None):
        """Bounded enumeration of acyclic-per-edge paths (each edge at most once per path)."""
        exits = set(exits or self.exits())
        out = []
        stack = [(start, (start,), frozenset())]
        while stack and len(out) < limit:
            n, path, used = stack.pop()
            if n in exits:
                out.append(path)
                continue
            for t, lab in n.succs:
                e = (n.idx, t.idx, lab)
                if e in used:
                    continue
                stack.append((t, path + (t,), used | {e}))
        return out, (len(out) >= limit)

    def edges(self):
        return sum(len(n.succs) for n in self.nodes)


def _const_truth(test):
    if isinstance(test, ast.Constant):
        return bool(test.value)
    return None


def _is_catch_all(h):
    if h.type is None:
        return True
    names = []
    if isinstance(h.type, ast.Tuple):
        names = [unparse(e) for e in h.type.elts]
    else:
        names = [unparse(h.type)]
    return any(n in ('Exception', 'BaseException') for n in names)


QUERY_LOG = None      # set to a list to record must_pass / dominates queries (thorough tier cross-check)


def start_query_log():
    global QUERY_LOG
    QUERY_LOG = []
    return QUERY_LOG


def crosscheck_queries(log, limit=10000):
    """Re-decide every logged query by bounded path enumeration (independent of the reachability formulation).

    Returns (checked, truncated, mismatches)."""
    checked = truncated = 0
    mismatches = []
    for cfg, kind, starts, through, targets, after, res in log:
        through = set(through)
        targets = set(targets)
        found_bad = False
        trunc = False
        begin = []
        for s in starts:
            if after:
                begin.extend(t for t, lab in s.succs)
            else:
                begin.append(s)
        for b in begin:
            # depth-first enumeration of paths that avoid `through`; success = reaching a target
            stack = [(b, frozenset())]
            seen_states = 0
            while stack and not found_bad:
                n, used = stack.pop()
                seen_states += 1
                if seen_states > limit:
                    trunc = True
                    break
                if n in through:
                    continue
                if n in targets:
                    found_bad = True
                    break
                for t, lab in n.succs:
                    e = (n.idx, t.idx, lab)
                    if e not in used:
                        stack.append((t, used | {e}))
            if found_bad:
                break
        checked += 1
        if trunc and not found_bad:
            truncated += 1
            continue
        if (not found_bad) != res:
            mismatches.append('%s query in %s: reachability says %s, path enumeration says %s'
                              % (kind, getattr(cfg.fn, 'name', '?'), res, not found_bad))
    return checked, truncated, mismatches


_CACHE = {}


def cfg_of(fn):
    key = id(fn)
    c = _CACHE.get(key)
    if c is None or c.fn is not fn:
        c = CFG(fn)
        _CACHE[key] = c
    return c
