"""F1 (C01): answer credit 0 x partial comparer credit leaves ok='partial' with grade 0."""
from mitxgraders import MatrixGrader
g = MatrixGrader(answers={'expect': '[1,2]', 'grade_decimal': 0, 'msg': 'nope'},
                 entry_partial_credit='proportional')
r = g(None, '[1,3]')
print(r)
assert (r['grade_decimal'] == 0) == (r['ok'] is False), r
