"""F8 (C20): a tolerance of 'nan%' is outside the documented domain but was accepted; the grader then marks exact answers wrong."""
from mitxgraders import FormulaGrader
from voluptuous import Error as ConfigError  # validation errors are voluptuous errors
try:
    g = FormulaGrader(answers='1', tolerance='nan%')
except ConfigError:
    print('rejected')
else:
    print('constructed', g.config['tolerance'], g(None, '1'))
    raise SystemExit("FormulaGrader(tolerance='nan%') was constructed")
# the neighbouring cases keep working
assert FormulaGrader(answers='1', tolerance='1%')(None, '1.001')['ok'] is True
assert FormulaGrader(answers='1', tolerance='0%')(None, '1')['ok'] is True
try:
    FormulaGrader(answers='1', tolerance='-1%'); raise SystemExit('negative accepted')
except ConfigError:
    pass
