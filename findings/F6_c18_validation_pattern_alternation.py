"""F6 (C18): validation_pattern must match the entire cleaned submission."""
from mitxgraders import StringGrader
g = StringGrader(validation_pattern='cat|dog', accept_any=True, explain_validation=None)
print(g(None, 'catfish'), g(None, 'dogfish'), g(None, 'cat'), g(None, 'dog'))
assert g(None, 'cat')['ok'] is True and g(None, 'dog')['ok'] is True
assert g(None, 'dogfish')['ok'] is False
assert g(None, 'catfish')['ok'] is False
