"""F3 (C11): a call whose expect fails post-validation still replaces the stored answers."""
from mitxgraders import SingleListGrader, StringGrader
from mitxgraders.exceptions import ConfigError
g = SingleListGrader(subgrader=StringGrader())
assert g('a,b', 'a,b')['ok'] is True
try:
    g('a,,b', 'a,b')
    raise SystemExit("expected ConfigError")
except ConfigError:
    pass
r = g(None, 'a,b')   # must grade against the last *successfully* supplied expect
print(r)
assert r['ok'] is True, r
