"""F10 (C20): a constructed object exposes a configuration from which an equal grader can be built again, and
construction fails only with configuration errors.  ListGrader normalises answers=[] to (), but
ListGrader(subgraders=[...], answers=()) -- in particular ListGrader(g.config) for such a grader g -- raised
IndexError (schema_answers indexed answers_tuple[0] of the empty tuple).
Run: PYTHONPATH=/repo /venv/bin/python findings/F10_listgrader_empty_answers_tuple.py  (exit 0 on the repaired tree)"""
from mitxgraders import ListGrader, StringGrader

bad = []
for kw in (dict(subgraders=[StringGrader(), StringGrader()], answers=[]),
           dict(subgraders=[StringGrader(), StringGrader()], answers=()),
           dict(subgraders=StringGrader(), answers=[])):
    try:
        g = ListGrader(**kw)
        g2 = ListGrader(g.config)
        if not g == g2:
            bad.append('%r: rebuilt grader differs' % (kw,))
    except Exception as e:       # noqa
        bad.append('%s: %s: %s' % (sorted(kw), type(e).__name__, e))
if bad:
    raise SystemExit('F10 present: ' + '; '.join(bad))
print('F10 absent: empty answers round-trip through the configuration')
