"""F4 (C11): debug output of a call contains the submission of an earlier call that raised."""
from mitxgraders import StringGrader
from mitxgraders.exceptions import ConfigError
g = StringGrader(debug=True)
try:
    g('cat', 5)
    raise SystemExit("expected ConfigError")
except ConfigError:
    pass
r = g('cat', 'cat')
fresh = StringGrader(debug=True)('cat', 'cat')
print(r['msg'])
assert r == fresh, (r, fresh)
