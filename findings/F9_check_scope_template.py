"""F9 (C02): an anticipated problem (undefined variable / function whose name differs only in case from a
configured tensor-indexed name) lost its error class and message: check_scope appended the suggestion
"(did you mean 'X_{1}'?)" to the message TEMPLATE and called str.format afterwards, so the braces of the
suggested name were read as a replacement field -> IndexError -> generic StudentFacingError.
Run: PYTHONPATH=/repo /venv/bin/python findings/F9_check_scope_template.py   (exit 0 on the repaired tree)"""
from mitxgraders import FormulaGrader
from mitxgraders.exceptions import StudentFacingError
from mitxgraders.helpers.calc.exceptions import UndefinedVariable, UndefinedFunction

bad = []
g = FormulaGrader(answers='X_{1}', variables=['X_{1}'])
try:
    g(None, 'x_{1}')
    bad.append('graded')
except UndefinedVariable as e:
    assert "did you mean 'X_{1}'" in str(e), str(e)
except StudentFacingError as e:
    bad.append('variable: %s: %s' % (type(e).__name__, e))
g = FormulaGrader(answers='F_{1}(1)', user_functions={'F_{1}': lambda x: x})
try:
    g(None, 'f_{1}(1)')
    bad.append('graded')
except UndefinedFunction as e:
    assert "did you mean 'F_{1}'" in str(e), str(e)
except StudentFacingError as e:
    bad.append('function: %s: %s' % (type(e).__name__, e))
if bad:
    raise SystemExit('F9 present: ' + '; '.join(bad))
print('F9 absent: the specific error class and suggestion are kept')
