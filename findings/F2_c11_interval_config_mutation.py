"""F2 (C11): IntervalGrader construction writes into the author's configuration dict."""
from mitxgraders import IntervalGrader
cfg = {'answers': '[1,2)'}
before = dict(cfg)
IntervalGrader(cfg)
print(cfg)
assert cfg == before, cfg
