"""F11 (C02): with debug off, a grader call either returns or raises a library error.  create_debuglog ran
json.dumps(self.modified_defaults) -- outside the guarded region of AbstractGrader.__call__ -- so registering a
default that is not a JSON value (the recipe of mitxgraders/plugins/defaults_sample.py:
AbstractGrader.register_defaults({'attempt_based_credit': ReciprocalCredit()})) made every call raise TypeError.
Run: PYTHONPATH=/repo /venv/bin/python findings/F11_registered_defaults_not_json.py   (exit 0 on the repaired tree)"""
from mitxgraders import StringGrader, ReciprocalCredit
from mitxgraders.baseclasses import AbstractGrader

AbstractGrader.register_defaults({'attempt_based_credit': ReciprocalCredit()})
try:
    try:
        r = StringGrader(answers='cat')(None, 'cat', attempt=2)
    except TypeError as e:
        raise SystemExit('F11 present: TypeError escaped: %s' % e)
    assert r['grade_decimal'] == 0.5 and r['ok'] == 'partial', r
finally:
    AbstractGrader.clear_registered_defaults()
print('F11 absent: registered object defaults are logged with repr; the call grades (credit 1/2 on attempt 2)')
