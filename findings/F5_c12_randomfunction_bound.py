"""F5 (C12): RandomFunction values exceed center +/- amplitude when input_dim > 1."""
import numpy as np, random
from mitxgraders import RandomFunction
np.random.seed(1); random.seed(1)
worst = 0
for _ in range(400):
    f = RandomFunction(input_dim=3, num_terms=2, amplitude=1, center=0).gen_sample()
    for _ in range(50):
        x = np.random.uniform(-10, 10, 3)
        worst = max(worst, abs(f(*x)))
print(worst)
assert worst <= 1 + 1e-12, worst
