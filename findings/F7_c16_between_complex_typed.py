"""F7 (C16): between_comparer must accept a real value even if it is complex-typed."""
from mitxgraders import NumericalGrader
from mitxgraders.comparers import between_comparer
from mitxgraders.exceptions import InputTypeError
g = NumericalGrader(answers={'comparer': between_comparer, 'comparer_params': ['1', '10']})
assert g(None, '5')['ok'] is True
r = g(None, '5*i/i')
print(r)
assert r['ok'] is True
assert g(None, '11*i/i')['ok'] is False
try:
    g(None, '5+2*i'); raise SystemExit('expected InputTypeError')
except InputTypeError:
    pass
