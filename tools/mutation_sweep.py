#!/usr/bin/env python3
"""Automatic mutation sweep: how much of the anchored code is pinned by the rules of its property?

For each property, the functions that cover the anchored line ranges of properties.jsonl (resolved on the pinned
commit, then looked up by qualified name in the current tree) are mutated one AST node at a time
(comparison operator flips, boolean operator swaps, arithmetic operator swaps, constant tweaks, negated
conditions, statement deletions, swapped call arguments) and the property's rules are run on each mutant as an
overlay.  Output: per property the numbers of mutants reported (exit 1), answered with analysis-error (exit 2)
and silent, plus the list of silent mutants for review.  Not every mutant breaks the property (many are
equivalent or touch messages only), so the ratio is a map of unpinned code, not a pass/fail criterion.

usage: mutation_sweep.py C04 [--max 300] [--list]
"""
import ast
import json
import os
import random
import re
import subprocess
import sys
from concurrent.futures import ProcessPoolExecutor

VERIF = os.path.dirname(os.path.dirname(os.path.abspath(__file__)))
sys.path.insert(0, VERIF)
PINNED = 'b2dba95'

CMP_SWAP = {ast.Lt: ast.LtE, ast.LtE: ast.Lt, ast.Gt: ast.GtE, ast.GtE: ast.Gt, ast.Eq: ast.NotEq, ast.NotEq: ast.Eq,
            ast.Is: ast.IsNot, ast.IsNot: ast.Is, ast.In: ast.NotIn, ast.NotIn: ast.In}
BIN_SWAP = {ast.Add: ast.Sub, ast.Sub: ast.Add, ast.Mult: ast.Div, ast.Div: ast.Mult, ast.Pow: ast.Mult, ast.Mod: ast.Mult}


def anchored_functions(prop):
    """Qualified (class.)function names covering the anchored ranges, resolved on the pinned commit."""
    rec = None
    for l in open(os.path.join(VERIF, 'properties.jsonl')):
        r = json.loads(l)
        if r['id'] == prop:
            rec = r
    out = {}
    for mech in rec['anchors']['mechanism']:
        where = mech.get('where', '')
        for part in where.split(';'):
            part = part.strip()
            m = re.match(r'^(\S+?\.py)(?::([\d,\- ]+))?$', part)
            if not m:
                continue
            rel, ranges = m.group(1), m.group(2)
            try:
                src = subprocess.run(['git', '-C', '/repo', 'show', '%s:%s' % (PINNED, rel)], stdout=subprocess.PIPE,
                                     stderr=subprocess.DEVNULL, check=True).stdout.decode()
            except subprocess.CalledProcessError:
                continue
            tree = ast.parse(src)
            spans = []
            if ranges:
                for rg in ranges.split(','):
                    rg = rg.strip()
                    if '-' in rg:
                        a, b = rg.split('-')
                        spans.append((int(a), int(b)))
                    elif rg:
                        spans.append((int(rg), int(rg)))
            else:
                spans.append((1, 10 ** 9))

            def visit(node, prefix):
                for ch in ast.iter_child_nodes(node):
                    if isinstance(ch, (ast.FunctionDef, ast.ClassDef)):
                        q = prefix + [ch.name]
                        if isinstance(ch, ast.FunctionDef):
                            if any(not (ch.end_lineno < a or ch.lineno > b) for a, b in spans):
                                if not ranges and len(out.get(rel, [])) > 40:
                                    pass
                                out.setdefault(rel, set()).add('.'.join(q))
                        visit(ch, q)
            visit(tree, [])
    return out


def find_function(tree, qual):
    parts = qual.split('.')
    node = tree
    for p in parts:
        nxt = None
        for ch in ast.walk(node) if node is tree and False else ast.iter_child_nodes(node):
            if isinstance(ch, (ast.FunctionDef, ast.ClassDef)) and ch.name == p:
                nxt = ch
                break
        if nxt is None:
            # nested in function body
            for ch in ast.walk(node):
                if isinstance(ch, (ast.FunctionDef, ast.ClassDef)) and ch.name == p and ch is not node:
                    nxt = ch
                    break
        if nxt is None:
            return None
        node = nxt
    return node


def mutants_of(src, quals, rng, limit):
    """Yield (description, new source)."""
    tree = ast.parse(src)
    sites = []
    for q in sorted(quals):
        fn = find_function(tree, q)
        if fn is None:
            continue
        for n in ast.walk(fn):
            if isinstance(n, ast.Expr) and isinstance(getattr(n, 'value', None), ast.Constant) and isinstance(n.value.value, str):
                continue
            if isinstance(n, ast.Compare) and len(n.ops) == 1 and type(n.ops[0]) in CMP_SWAP:
                sites.append((q, 'cmp', n))
            elif isinstance(n, ast.BoolOp):
                sites.append((q, 'bool', n))
            elif isinstance(n, ast.BinOp) and type(n.op) in BIN_SWAP and not isinstance(n.left, ast.Constant) :
                sites.append((q, 'bin', n))
            elif isinstance(n, ast.Constant) and isinstance(n.value, (int, float)) and not isinstance(n.value, bool):
                sites.append((q, 'const', n))
            elif isinstance(n, ast.Constant) and isinstance(n.value, bool):
                sites.append((q, 'boolconst', n))
            elif isinstance(n, (ast.If, ast.While)):
                sites.append((q, 'negate', n))
            elif isinstance(n, ast.Call) and len(n.args) == 2 and not n.keywords and \
                    ast.dump(n.args[0]) != ast.dump(n.args[1]):
                sites.append((q, 'argswap', n))
            elif isinstance(n, (ast.Assign, ast.AugAssign, ast.Expr, ast.Raise)) and not (
                    isinstance(n, ast.Expr) and isinstance(n.value, ast.Constant)):
                sites.append((q, 'delete', n))
            elif isinstance(n, ast.UnaryOp) and isinstance(n.op, (ast.Not, ast.USub)):
                sites.append((q, 'dropunary', n))
    rng.shuffle(sites)
    sites = sites[:limit]
    for q, kind, node in sites:
        # work on a fresh copy located by position
        t2 = ast.parse(src)
        target = None
        for n in ast.walk(t2):
            if type(n) is type(node) and getattr(n, 'lineno', None) == getattr(node, 'lineno', None) and \
                    getattr(n, 'col_offset', None) == getattr(node, 'col_offset', None) and \
                    getattr(n, 'end_col_offset', None) == getattr(node, 'end_col_offset', None):
                target = n
                break
        if target is None:
            continue
        before = ast.unparse(target)[:70].replace('\n', ' ')
        if kind == 'cmp':
            target.ops = [CMP_SWAP[type(target.ops[0])]()]
        elif kind == 'bool':
            target.op = ast.Or() if isinstance(target.op, ast.And) else ast.And()
        elif kind == 'bin':
            target.op = BIN_SWAP[type(target.op)]()
        elif kind == 'const':
            target.value = target.value + 1 if target.value != 1 else 2
        elif kind == 'boolconst':
            target.value = not target.value
        elif kind == 'negate':
            target.test = ast.UnaryOp(op=ast.Not(), operand=target.test)
        elif kind == 'argswap':
            target.args = [target.args[1], target.args[0]]
        elif kind == 'dropunary':
            class R(ast.NodeTransformer):
                def visit_UnaryOp(self, n):
                    if n is target:
                        return n.operand
                    return self.generic_visit(n)
            t2 = R().visit(t2)
        elif kind == 'delete':
            class D(ast.NodeTransformer):
                def generic_visit(self, n):
                    for field in ('body', 'orelse', 'finalbody'):
                        sub = getattr(n, field, None)
                        if isinstance(sub, list) and any(x is target for x in sub):
                            new = [x for x in sub if x is not target] or [ast.Pass()]
                            setattr(n, field, new)
                    return super().generic_visit(n)
            t2 = D().visit(t2)
        ast.fix_missing_locations(t2)
        try:
            new_src = ast.unparse(t2)
            ast.parse(new_src)
        except Exception:
            continue
        yield '%s L%d %s: %s' % (q, node.lineno, kind, before), new_src


ALL = ['C%02d' % i for i in range(1, 21)]


def run_one(args):
    prop, rel, desc, new_src = args
    from sa import run
    props = ALL if ALL_PROPS else [prop]
    best = 0
    rule = ''
    for p in [prop] + [x for x in props if x != prop]:
        try:
            ctx, mod = run.run_rules(p, overlay={rel: new_src}, related=not ALL_PROPS)
            v, u = run.violations_of(ctx)
            code = 1 if v else (2 if u else 0)
            r = v[0].rule if v else (u[0].rule if u else '')
        except Exception as e:
            code, r = 3, repr(e)[:80]
        if code == 1:
            return desc, rel, 1, r
        if code > best:
            best, rule = code, r
    return desc, rel, best, rule


ALL_PROPS = '--all-props' in sys.argv


def run_tests(job):
    """Does the mutant pass the repository's test suite? (scratch copy under a temp dir, removed afterwards)"""
    import shutil
    import tempfile
    rel, desc, new_src = job
    d = tempfile.mkdtemp(prefix='sweep-')
    try:
        for item in ('mitxgraders', 'voluptuous', 'tests', 'docs', 'conftest.py', 'pytest.ini', 'mkdocs.yml', 'README.md', 'course', 'python_lib.zip'):
            srcp = os.path.join('/repo', item)
            if os.path.isdir(srcp):
                shutil.copytree(srcp, os.path.join(d, item), ignore=shutil.ignore_patterns('__pycache__'))
            elif os.path.exists(srcp):
                shutil.copy(srcp, os.path.join(d, item))
        with open(os.path.join(d, rel), 'w', encoding='utf-8') as f:
            f.write(new_src)
        desel = []
        for l in open(os.path.join(VERIF, 'tools', 'preexisting_failures.txt')):
            if l.strip():
                desel += ['--deselect', l.strip()]
        p = subprocess.run(['/venv/bin/python', '-m', 'pytest', '-q', '-p', 'no:cacheprovider', '--timeout=300', '-x'] + desel,
                           cwd=d, stdout=subprocess.PIPE, stderr=subprocess.STDOUT, timeout=900)
        out = p.stdout.decode(errors='replace')
        return rel, desc, p.returncode == 0
    except Exception:
        return rel, desc, False
    finally:
        shutil.rmtree(d, ignore_errors=True)


def main():
    prop = sys.argv[1].upper()
    limit = 300
    if '--max' in sys.argv:
        limit = int(sys.argv[sys.argv.index('--max') + 1])
    rng = random.Random(int(os.environ.get('VERIF_SEED') or 1))
    anchors = anchored_functions(prop)
    tasks = []
    nfiles = max(1, len(anchors))
    for rel, quals in sorted(anchors.items()):
        try:
            src = open(os.path.join('/repo', rel), encoding='utf-8').read()
        except OSError:
            continue
        # the baseline for a mutant is the unparse round trip of the file (so positions agree)
        for desc, new_src in mutants_of(src, quals, rng, max(10, limit // nfiles)):
            tasks.append((prop, rel, desc, new_src))
    tasks = tasks[:limit]
    with ProcessPoolExecutor(max_workers=16) as ex:
        results = list(ex.map(run_one, tasks, chunksize=4))
    by = {0: [], 1: [], 2: [], 3: []}
    for desc, rel, code, rule in results:
        by[code].append((rel, desc, rule))
    survivors = []
    if '--tests' in sys.argv and by[0]:
        src_of = {(rel, desc): new_src for (_, rel, desc, new_src) in tasks}
        jobs = [(rel, desc, src_of[(rel, desc)]) for rel, desc, _ in by[0]]
        with ProcessPoolExecutor(max_workers=12) as ex:
            outcomes = list(ex.map(run_tests, jobs))
        survivors = [(rel, desc) for (rel, desc, ok) in outcomes if ok]
    ae_survivors = []
    if '--tests-ae' in sys.argv and by[2]:
        # analysis-error (exit 2) mutants that the repository's tests also accept: candidates where the check
        # should have recognised the difference (exit 1) instead of merely refusing to decide
        src_of = {(rel, desc): new_src for (_, rel, desc, new_src) in tasks}
        rule_of = {(rel, desc): rule for rel, desc, rule in by[2]}
        jobs = [(rel, desc, src_of[(rel, desc)]) for rel, desc, _ in by[2]]
        with ProcessPoolExecutor(max_workers=12) as ex:
            outcomes = list(ex.map(run_tests, jobs))
        ae_survivors = [(rel, desc, rule_of[(rel, desc)]) for (rel, desc, ok) in outcomes if ok]
    print('%s: %d mutants in %d functions: reported %d, analysis-error %d, silent %d, crashed %d' % (
        prop, len(results), sum(len(q) for q in anchors.values()), len(by[1]), len(by[2]), len(by[0]), len(by[3])))
    if '--tests' in sys.argv:
        print('   of the %d silent mutants, %d also pass the repository test suite:' % (len(by[0]), len(survivors)))
        for rel, desc in sorted(survivors):
            print('  SILENT+TESTS-PASS %s %s' % (rel.split('/')[-1], desc))
    if '--tests-ae' in sys.argv:
        print('   of the %d analysis-error mutants, %d also pass the repository test suite:' % (len(by[2]), len(ae_survivors)))
        for rel, desc, rule in sorted(ae_survivors):
            print('  UNDECIDED+TESTS-PASS %s %s [%s]' % (rel.split('/')[-1], desc, rule))
    if '--list' in sys.argv:
        for rel, desc, rule in sorted(by[0]):
            print('  SILENT %s %s' % (rel.split('/')[-1], desc))
        for rel, desc, rule in sorted(by[3]):
            print('  CRASH  %s %s %s' % (rel.split('/')[-1], desc, rule))
    out = os.path.join(VERIF, 'sweeps')
    os.makedirs(out, exist_ok=True)
    with open(os.path.join(out, '%s.json' % prop), 'w') as f:
        json.dump({'property': prop, 'mutants': len(results), 'reported': len(by[1]), 'analysis_error': len(by[2]),
                   'silent': len(by[0]), 'crashed': len(by[3]),
                   'silent_tests_pass': ['%s %s' % (r, d) for r, d in sorted(survivors)],
                   'undecided_list': ['%s %s [%s]' % (r, d, x) for r, d, x in sorted(by[2])],
                   'undecided_tests_pass': ['%s %s [%s]' % (r, d, x) for r, d, x in sorted(ae_survivors)],
                   'silent_list': ['%s %s' % (r, d) for r, d, _ in sorted(by[0])],
                   'crash_list': ['%s %s %s' % (r, d, x) for r, d, x in sorted(by[3])]}, f, indent=1)
        f.write('\n')


if __name__ == '__main__':
    main()
