#!/usr/bin/env python3
"""Run the static checks against every filed seeded change (in scratch worktrees, removed afterwards).

usage: run_seeds.py [seed-id-prefix ...]      prints one line per seed: which checks raise VIOLATION / exit 2 / stay silent
Writes /verif/seeded/RESULTS.json (seed -> {property: exit code}).
"""
import json
import os
import subprocess
import sys
from concurrent.futures import ThreadPoolExecutor

VERIF = os.path.dirname(os.path.dirname(os.path.abspath(__file__)))
PY = '/venv/bin/python'


def sh(cmd, cwd=None):
    p = subprocess.run(cmd, shell=True, cwd=cwd, stdout=subprocess.PIPE, stderr=subprocess.STDOUT)
    return p.returncode, '\n'.join(l for l in p.stdout.decode(errors='replace').splitlines() if 'auto_activate_base' not in l)


def available():
    return sorted(f[:-3].upper() for f in os.listdir(os.path.join(VERIF, 'sa', 'props'))
                  if f.startswith('c') and f.endswith('.py') and f[1:3].isdigit())


def one(sid, all_props):
    d = os.path.join(VERIF, 'seeded', sid)
    meta = json.load(open(os.path.join(d, 'meta.json')))
    prop = meta.get('property', sid[:3])
    wt = '/tmp/seedrun/%s' % sid
    sh('git -C /repo worktree remove --force %s' % wt)
    code, out = sh('git -C /repo worktree add --detach %s HEAD' % wt)
    res = {}
    try:
        code, out = sh('git apply %s' % os.path.join(d, 'patch.diff'), cwd=wt)
        if code:
            return sid, prop, {'apply': out}
        props = all_props if '--all' in sys.argv else [prop]
        for p in props:
            if p not in all_props:
                res[p] = None
                continue
            code, out = sh('timeout 180 %s -m sa check %s --root %s --no-write' % (PY, p, wt), cwd=VERIF)
            first = [l for l in out.splitlines() if l.startswith('  rule ')][:1] or \
                    [l for l in out.splitlines() if l.startswith('ANALYSIS-ERROR')][:1]
            res[p] = {'exit': code, 'first': first[0].strip()[:260] if first else ''}
    finally:
        sh('git -C /repo worktree remove --force %s' % wt)
    return sid, prop, res


def main():
    os.makedirs('/tmp/seedrun', exist_ok=True)
    prefixes = [a for a in sys.argv[1:] if not a.startswith('--')]
    seeds = sorted(s for s in os.listdir(os.path.join(VERIF, 'seeded')) if os.path.isdir(os.path.join(VERIF, 'seeded', s)))
    if prefixes:
        seeds = [s for s in seeds if any(s.startswith(p) for p in prefixes)]
    allp = available()
    with ThreadPoolExecutor(max_workers=8) as ex:
        results = list(ex.map(lambda s: one(s, allp), seeds))
    table = {}
    for sid, prop, res in results:
        table[sid] = {p: (r['exit'] if isinstance(r, dict) and 'exit' in r else None) for p, r in res.items()}
        own = res.get(prop)
        if own is None:
            status = 'no check'
        elif 'exit' not in own:
            status = 'patch failed'
        else:
            status = {0: 'MISSED', 1: 'CAUGHT', 2: 'exit2'}[own['exit']]
        others = [p for p, r in res.items() if p != prop and isinstance(r, dict) and r.get('exit') == 1]
        print('%-6s %-8s %s %s' % (sid, status, (own or {}).get('first', '') if isinstance(own, dict) else '',
                                   ('also: ' + ','.join(others)) if others else ''))
    if not prefixes:
        with open(os.path.join(VERIF, 'seeded', 'RESULTS.json'), 'w') as f:
            json.dump(table, f, indent=1, sort_keys=True)
            f.write('\n')


if __name__ == '__main__':
    main()
