#!/usr/bin/env python3
"""Run every static check against every filed behaviour-preserving refactoring (false-alarm corpus).

usage: run_benign.py [id-prefix ...] [--props C01,C02]
One line per refactoring: silent count, checks that answer exit 2, checks that raise a FALSE ALARM (exit 1).
Writes /verif/benign/RESULTS.json and benign/README.md when run without prefixes.
"""
import json
import os
import subprocess
import sys
from concurrent.futures import ThreadPoolExecutor

VERIF = os.path.dirname(os.path.dirname(os.path.abspath(__file__)))
PY = '/venv/bin/python'


def sh(cmd, cwd=None):
    p = subprocess.run(cmd, shell=True, cwd=cwd, stdout=subprocess.PIPE, stderr=subprocess.STDOUT)
    return p.returncode, '\n'.join(l for l in p.stdout.decode(errors='replace').splitlines() if 'auto_activate_base' not in l)


def props():
    return sorted(f[:-3].upper() for f in os.listdir(os.path.join(VERIF, 'sa', 'props'))
                  if f.startswith('c') and f.endswith('.py') and f[1:3].isdigit())


def one(args):
    rid, plist = args
    d = os.path.join(VERIF, 'benign', rid)
    wt = '/tmp/benignrun/%s-%d' % (rid, os.getpid())
    sh('git -C /repo worktree remove --force %s' % wt)
    sh('git -C /repo worktree add --detach %s HEAD' % wt)
    res = {}
    try:
        code, out = sh('git apply %s' % os.path.join(d, 'patch.diff'), cwd=wt)
        if code:
            return rid, {'apply': out}
        for p in plist:
            code, out = sh('timeout 300 %s -m sa check %s --root %s --no-write' % (PY, p, wt), cwd=VERIF)
            first = [l.strip() for l in out.splitlines() if l.startswith(('  rule ', 'ANALYSIS-ERROR'))][:1]
            res[p] = {'exit': code, 'report': first[0][:300] if first else ''}
    finally:
        sh('git -C /repo worktree remove --force %s' % wt)
    return rid, res


def main():
    os.makedirs('/tmp/benignrun', exist_ok=True)
    prefixes = [a for a in sys.argv[1:] if not a.startswith('-')]
    plist = props()
    for a in sys.argv[1:]:
        if a.startswith('--props'):
            plist = a.split('=', 1)[1].split(',')
    ids = sorted(s for s in os.listdir(os.path.join(VERIF, 'benign')) if os.path.isdir(os.path.join(VERIF, 'benign', s)))
    if prefixes:
        ids = [s for s in ids if any(s.startswith(p) for p in prefixes)]
    with ThreadPoolExecutor(max_workers=6) as ex:
        results = list(ex.map(one, [(i, plist) for i in ids]))
    table = {}
    n_alarm = n_und = 0
    for rid, res in results:
        table[rid] = res
        alarms = sorted(p for p, r in res.items() if isinstance(r, dict) and r.get('exit') == 1)
        und = sorted(p for p, r in res.items() if isinstance(r, dict) and r.get('exit') not in (0, 1))
        n_alarm += len(alarms)
        n_und += len(und)
        print('%-6s silent %2d  exit2 %-22s FALSE-ALARM %s' % (rid, len(res) - len(alarms) - len(und), ','.join(und) or '-', ','.join(alarms) or '-'))
        for p in alarms:
            print('        %s: %s' % (p, res[p]['report'][:230]))
        if '-v' in sys.argv:
            for p in und:
                print('        %s: %s' % (p, res[p]['report'][:230]))
    print('total: %d refactorings, %d false alarms, %d analysis-errors' % (len(results), n_alarm, n_und))
    if not prefixes and not any(a.startswith('--props') for a in sys.argv[1:]):
        with open(os.path.join(VERIF, 'benign', 'RESULTS.json'), 'w') as f:
            json.dump(table, f, indent=1, sort_keys=True)
            f.write('\n')
        lines = ['# Behaviour-preserving refactorings (false-alarm corpus)', '',
                 'Each directory holds `patch.diff`, `equiv.py` (its transcript is byte-identical with and without the patch) and',
                 '`meta.json`. Produced by sub-agents that saw only the property text, verified by `tools/verify_refac.py`',
                 '(transcripts identical, 363 baseline tests still pass). `tools/run_benign.py` runs all twenty checks on each.',
                 'A check must never answer exit 1 here; exit 2 (analysis-error) means the reviewed idiom tables no longer cover the code.', '',
                 '| refactoring | what | silent | exit 2 | false alarm (exit 1) |', '|---|---|---|---|---|']
        for rid in sorted(table):
            meta = json.load(open(os.path.join(VERIF, 'benign', rid, 'meta.json')))
            res = table[rid]
            alarms = sorted(p for p, r in res.items() if isinstance(r, dict) and r.get('exit') == 1)
            und = sorted(p for p, r in res.items() if isinstance(r, dict) and r.get('exit') not in (0, 1))
            lines.append('| %s | %s | %d | %s | %s |' % (rid, ' '.join(str(meta.get('summary', '')).split())[:160].replace('|', '/'),
                                                       len(res) - len(alarms) - len(und), ' '.join(und) or '-', ' '.join(alarms) or '-'))
        with open(os.path.join(VERIF, 'benign', 'README.md'), 'w') as f:
            f.write('\n'.join(lines) + '\n')


if __name__ == '__main__':
    main()
