#!/bin/sh
# verify every delivered seed under /tmp/seed/*/SEED/* that is not yet filed under /verif/seeded
for d in /tmp/seed/*/SEED/*/; do
  id=$(basename "$d")
  [ -f "$d/patch.diff" ] || continue
  [ -d "/verif/seeded/$id" ] && continue
  /venv/bin/python /verif/tools/verify_seed.py "$d" "$id" 2>&1 | grep -v auto_activate
done
