#!/usr/bin/env python3
"""Verify a behaviour-preserving refactoring and run every static check against it (false-alarm test).

usage: verify_refac.py <dir with patch.diff equiv.py meta.json> [<id>]

In a throw-away worktree of /repo's HEAD: equiv.py transcript on the clean tree == transcript with the patch;
all 363 baseline tests still pass with the patch; then every property check is run with --root on the patched
tree.  Filed under /verif/benign/<id>/ with the outcome (exit 0 = silent, 2 = analysis-error, 1 = FALSE ALARM).
"""
import json
import os
import shutil
import subprocess
import sys
import xml.etree.ElementTree as ET
from concurrent.futures import ThreadPoolExecutor

VERIF = os.path.dirname(os.path.dirname(os.path.abspath(__file__)))
PY = '/venv/bin/python'


def sh(cmd, cwd=None, env=None, timeout=1800):
    e = dict(os.environ)
    e.update(env or {})
    p = subprocess.run(cmd, shell=True, cwd=cwd, env=e, stdout=subprocess.PIPE, stderr=subprocess.STDOUT, timeout=timeout)
    out = '\n'.join(l for l in p.stdout.decode(errors='replace').splitlines() if 'auto_activate_base' not in l)
    return p.returncode, out


def props():
    return sorted(f[:-3].upper() for f in os.listdir(os.path.join(VERIF, 'sa', 'props'))
                  if f.startswith('c') and f.endswith('.py') and f[1:3].isdigit())


def run_checks(wt):
    def one(p):
        code, out = sh('timeout 300 %s -m sa check %s --root %s --no-write' % (PY, p, wt), cwd=VERIF)
        lines = [l.strip() for l in out.splitlines() if l.startswith(('  rule ', 'ANALYSIS-ERROR'))]
        return p, {'exit': code, 'report': [l[:300] for l in lines[:4]]}
    with ThreadPoolExecutor(max_workers=8) as ex:
        return dict(ex.map(one, props()))


def main():
    src = os.path.abspath(sys.argv[1])
    rid = sys.argv[2] if len(sys.argv) > 2 else os.path.basename(src.rstrip('/'))
    recheck = '--recheck' in sys.argv
    meta = json.load(open(os.path.join(src, 'meta.json')))
    wt = '/tmp/refacverify/%s' % rid
    os.makedirs('/tmp/refacverify', exist_ok=True)
    sh('git -C /repo worktree remove --force %s' % wt)
    code, out = sh('git -C /repo worktree add --detach %s HEAD' % wt)
    if code:
        print(out)
        return 2
    ok = True
    record = {}
    try:
        if not recheck:
            shutil.copy(os.path.join(src, 'equiv.py'), os.path.join(wt, '_equiv.py'))
            c0, t0 = sh('%s _equiv.py' % PY, cwd=wt, env={'PYTHONPATH': wt, 'PYTHONHASHSEED': '0'})
        code, out = sh('git apply %s' % os.path.join(src, 'patch.diff'), cwd=wt)
        if code:
            print('FAIL: patch does not apply\n' + out)
            return 1
        if not recheck:
            c1, t1 = sh('%s _equiv.py' % PY, cwd=wt, env={'PYTHONPATH': wt, 'PYTHONHASHSEED': '0'})
            os.remove(os.path.join(wt, '_equiv.py'))
            record['transcript_lines'] = len(t0.splitlines())
            if c0 != c1 or t0 != t1:
                print('FAIL: transcripts differ (exit %s vs %s)' % (c0, c1))
                ok = False
            code, out = sh('%s -m pytest -q -p no:cacheprovider --timeout=900 --continue-on-collection-errors '
                           '--junitxml=/tmp/refacverify/%s.xml' % (PY, rid), cwd=wt)
            passed = set()
            for tc in ET.parse('/tmp/refacverify/%s.xml' % rid).iter('testcase'):
                if not any(c.tag in ('failure', 'error', 'skipped') for c in tc):
                    passed.add(tc.get('classname') + '::' + tc.get('name'))
            os.remove('/tmp/refacverify/%s.xml' % rid)
            base = set(json.load(open('/root/.vp/BASELINE.json'))['stable_pass'])
            lost = sorted(base - passed)
            record['tests'] = out.strip().splitlines()[-1] if out.strip() else ''
            if lost:
                print('FAIL: baseline tests lost: %s' % lost[:5])
                ok = False
        checks = run_checks(wt)
    finally:
        sh('git -C /repo worktree remove --force %s' % wt)
        shutil.rmtree(wt, ignore_errors=True)
    if not ok:
        print('refactoring %s REJECTED (not behaviour-preserving by its own transcript/tests)' % rid)
        return 1
    dst = os.path.join(VERIF, 'benign', rid)
    os.makedirs(dst, exist_ok=True)
    if not recheck:
        for f in ('patch.diff', 'equiv.py'):
            shutil.copy(os.path.join(src, f), os.path.join(dst, f))
        meta['verified'] = {'how': 'tools/verify_refac.py: fresh worktree of /repo HEAD; equiv.py transcript identical with and without '
                                   'the patch; all 363 baseline tests pass with the patch; worktree removed', **record}
    else:
        meta = json.load(open(os.path.join(dst, 'meta.json')))
    meta['static_checks'] = {p: r for p, r in checks.items() if r['exit'] != 0}
    meta['static_checks_silent'] = sorted(p for p, r in checks.items() if r['exit'] == 0)
    with open(os.path.join(dst, 'meta.json'), 'w') as f:
        json.dump(meta, f, indent=1)
        f.write('\n')
    alarms = sorted(p for p, r in checks.items() if r['exit'] == 1)
    und = sorted(p for p, r in checks.items() if r['exit'] == 2)
    other = sorted(p for p, r in checks.items() if r['exit'] not in (0, 1, 2))
    print('refactoring %s: silent %d, exit2 %s, FALSE ALARM %s%s' % (rid, len(checks) - len(alarms) - len(und) - len(other), und, alarms,
                                                                   ' other %s' % other if other else ''))
    for p in alarms + und:
        print('   %s: %s' % (p, checks[p]['report'][:1]))
    return 0


if __name__ == '__main__':
    sys.exit(main())
