#!/bin/sh
# verify every delivered refactoring under /tmp/refac/*/REFAC/* not yet filed under /verif/benign (4 at a time)
ls -d /tmp/refac/*/REFAC/*/ 2>/dev/null | while read d; do
  id=$(basename "$d")
  [ -f "$d/patch.diff" ] && [ -f "$d/meta.json" ] && [ -f "$d/equiv.py" ] || continue
  [ -d "/verif/benign/$id" ] && continue
  echo "$d $id"
done | xargs -P 4 -L 1 sh -c '/venv/bin/python /verif/tools/verify_refac.py "$0" "$1" 2>&1 | grep -v auto_activate'
