#!/usr/bin/env python3
"""Verify a seeded breaking change and file it under /verif/seeded/<id>/.

usage: verify_seed.py <dir with patch.diff demo.py meta.json> [<seed id>]

Steps (all in a throw-away git worktree of /repo's HEAD, removed afterwards):
  1. demo.py on the clean tree            -> must exit 0
  2. git apply patch.diff; demo.py         -> must fail
  3. full pinned test suite with the patch -> every baseline test (BASELINE.json stable_pass) must still pass
  4. copy patch.diff / demo.py / meta.json to /verif/seeded/<id>/ and record what was run
  5. run the property's static check against the patched tree (sa check --root) and record the outcome
"""
import json
import os
import shutil
import subprocess
import sys
import xml.etree.ElementTree as ET

VERIF = os.path.dirname(os.path.dirname(os.path.abspath(__file__)))
PY = '/venv/bin/python'


def sh(cmd, cwd=None, env=None, timeout=1800):
    e = dict(os.environ)
    e.update(env or {})
    p = subprocess.run(cmd, shell=True, cwd=cwd, env=e, stdout=subprocess.PIPE, stderr=subprocess.STDOUT, timeout=timeout)
    out = '\n'.join(l for l in p.stdout.decode(errors='replace').splitlines() if 'auto_activate_base' not in l)
    return p.returncode, out


def run_checks(wt, props):
    res = {}
    for prop in props:
        if not os.path.exists(os.path.join(VERIF, 'sa', 'props', prop.lower() + '.py')):
            res[prop] = 'no check yet'
            continue
        code, out = sh('timeout 180 %s -m sa check %s --root %s --no-write' % (PY, prop, wt), cwd=VERIF)
        lines = [l for l in out.splitlines() if l.startswith(('VIOLATION', 'ANALYSIS-ERROR', '  rule'))]
        res[prop] = {'exit': code, 'report': lines[:8]}
    return res


def main():
    src = os.path.abspath(sys.argv[1])
    sid = sys.argv[2] if len(sys.argv) > 2 else os.path.basename(src.rstrip('/'))
    meta = json.load(open(os.path.join(src, 'meta.json')))
    prop = meta.get('property', sid[:3])
    wt = '/tmp/seedverify/%s' % sid
    os.makedirs('/tmp/seedverify', exist_ok=True)
    sh('git -C /repo worktree remove --force %s' % wt)
    code, out = sh('git -C /repo worktree add --detach %s HEAD' % wt)
    if code:
        print(out)
        return 2
    ok = True
    record = {}
    try:
        shutil.copy(os.path.join(src, 'demo.py'), os.path.join(wt, '_demo.py'))
        code, out = sh('%s _demo.py' % PY, cwd=wt, env={'PYTHONPATH': wt})
        record['demo_clean_exit'] = code
        if code != 0:
            print('FAIL: demo does not pass on the clean tree\n' + out[-1500:])
            ok = False
        code, out = sh('git apply %s' % os.path.join(src, 'patch.diff'), cwd=wt)
        if code:
            print('FAIL: patch does not apply\n' + out)
            return 1
        code, out = sh('%s _demo.py' % PY, cwd=wt, env={'PYTHONPATH': wt})
        record['demo_patched_exit'] = code
        record['demo_patched_tail'] = out.strip().splitlines()[-1:] if out.strip() else []
        if code == 0:
            print('FAIL: demo still passes with the patch')
            ok = False
        os.remove(os.path.join(wt, '_demo.py'))
        code, out = sh('%s -m pytest -q -p no:cacheprovider --timeout=900 --continue-on-collection-errors '
                       '--junitxml=/tmp/seedverify/%s.xml' % (PY, sid), cwd=wt)
        passed = set()
        for tc in ET.parse('/tmp/seedverify/%s.xml' % sid).iter('testcase'):
            if not any(c.tag in ('failure', 'error', 'skipped') for c in tc):
                passed.add(tc.get('classname') + '::' + tc.get('name'))
        os.remove('/tmp/seedverify/%s.xml' % sid)
        base = set(json.load(open('/root/.vp/BASELINE.json'))['stable_pass'])
        lost = sorted(base - passed)
        record['tests'] = out.strip().splitlines()[-1] if out.strip() else ''
        record['baseline_tests_lost'] = lost
        if lost:
            print('FAIL: baseline tests no longer pass with the patch: %s' % lost[:5])
            ok = False
        related = sorted(set([prop] + sys.argv[3:]))
        record['static_checks'] = run_checks(wt, related)
    finally:
        sh('git -C /repo worktree remove --force %s' % wt)
        shutil.rmtree(wt, ignore_errors=True)
    if not ok:
        print('seed %s REJECTED' % sid)
        return 1
    dst = os.path.join(VERIF, 'seeded', sid)
    os.makedirs(dst, exist_ok=True)
    for f in ('patch.diff', 'demo.py'):
        shutil.copy(os.path.join(src, f), os.path.join(dst, f))
    meta['verified'] = {
        'how': 'tools/verify_seed.py: fresh git worktree of /repo HEAD; demo.py exit 0 on the clean tree, non-zero with patch.diff '
               'applied; full pinned pytest run with the patch: all 363 baseline tests still pass; worktree removed afterwards',
        'repo_head': sh('git -C /repo rev-parse --short HEAD')[1].strip(),
    }
    meta['verified'].update({k: v for k, v in record.items() if k != 'static_checks'})
    meta['static_checks_at_filing'] = record['static_checks']
    with open(os.path.join(dst, 'meta.json'), 'w') as f:
        json.dump(meta, f, indent=1)
        f.write('\n')
    print('seed %s ACCEPTED; tests: %s' % (sid, record['tests']))
    for p, r in record['static_checks'].items():
        print('  %s: %s' % (p, r if isinstance(r, str) else 'exit %d %s' % (r['exit'], r['report'][:3])))
    return 0


if __name__ == '__main__':
    sys.exit(main())
