#!/usr/bin/env python3
"""Regenerate /verif/MANIFEST.json from the property modules that exist under sa/props/."""
import json
import os
import sys

HERE = os.path.dirname(os.path.dirname(os.path.abspath(__file__)))
sys.path.insert(0, HERE)

from sa import props  # noqa: E402

PY = '/venv/bin/python'
TECH = {
    'C01': 'CFG must-pass/ordering rules + dictionary key-set and (ok, grade) record abstract interpretation over ast',
    'C02': 'exception-guard contract over a CFG with exceptional edges, handler-order/hierarchy checks, taint containment (ast)',
    'C03': 'pyparsing grammar term extraction (precedence chain, FIRST/FOLLOW), action-table agreement, fold-direction normal forms',
    'C04': 'normal-form comparison of decision expressions + argument-role hop table over resolved calls',
    'C05': 'operand-role/def-use rules and normal forms over ast (matrix orientation, index symmetry, arg-max selection)',
    'C06': 'no-mutation/alias analysis, definite-initialisation (CFG) and step-table exhaustiveness',
    'C07': 'normal-form comparison of the credit formula, ordering rules on the CFG',
    'C08': 'loop-exhaustiveness, selection normal forms and copy-before-write rules',
    'C09': 'CFG must-pass-through rules, sibling cross-check of three gen_evaluations, set-algebra normal forms',
    'C10': 'release-on-all-exits (CFG with exceptional edges), who-may-write sweeps, grammar determinism (FIRST/FOLLOW)',
    'C11': 'who-may-write inventory of persistent state, validate-then-commit dominance, no-mutation/alias analysis',
    'C12': 'interval/magnitude abstract interpretation of samplers, involution algebra for symmetries, option-enum exhaustiveness',
    'C13': 'CFG no-progress-implies-raise rule, key-set must-analysis, regex AST facts',
    'C14': 'abstract interpretation over operand-shape descriptors of MathArray operators, cast-discipline must-pass rule',
    'C15': 'table agreement (code/docs/spec) and normal forms of derived definitions, decorator/domain rules',
    'C16': 'normal forms of comparer decisions, validation-dominates-comparison, numeric type-state (complex ordering) rule',
    'C17': 'interval + monotonicity abstract interpretation of credit schedules, application-rule normal forms',
    'C18': 'string-transform pipeline extraction, both-sides cleaning roles, full-match construction rule, policy table',
    'C19': 'summation normal form (swap, cutoffs, parity, inclusive range), ordering of limit checks, sibling cross-check',
    'C20': 'schema term extraction and table agreement with docstrings/docs, unknown-key rejection sweep, cross-rule reachability',
}
TODO_REASON = ('no check registered for this property in this snapshot of /verif: the static rules designed for it in '
               'DESIGN.md section 4 are not implemented yet')


def main():
    checks = []
    na = []
    with open(os.path.join(HERE, 'tools', 'ready.txt')) as f:
        ready = set(f.read().split())
    for p in props.ALL:
        try:
            if p not in ready:
                raise ImportError(p)
            mod = props.load(p)
        except ImportError:
            na.append({'property_id': p, 'reason': TODO_REASON})
            continue
        if getattr(mod, 'NOT_APPLICABLE', None):
            na.append({'property_id': p, 'reason': mod.NOT_APPLICABLE})
            continue
        checks.append({
            'property_id': p,
            'quick_cmd': '%s -m sa check %s --tier quick' % (PY, p),
            'thorough_cmd': '%s -m sa check %s --tier thorough' % (PY, p),
            'evidence_file': '/verif/evidence/%s.json' % p,
            'replay_cmd_template': '%s -m sa replay {path}' % PY,
            'engine': 'sa',
            'level_claimed': {
                'category': 'other',
                'text': ('Static analysis of /repo\'s current source (ast, own CFG/alias/normal-form/abstract-interpretation '
                         'engine; nothing is executed). Decides, for every path / call site / table entry, the structural '
                         'clauses listed in the level note, each a necessary condition of the property: ' + mod.EXPLANATION),
                'design_ref': 'DESIGN.md section 4, %s' % p,
            },
            'level_note': ('Decides the structural clauses above, NOT the value-level behaviour. Not decided: ' + mod.NOT_DECIDED +
                           ' Trusted: CPython ast; documented behaviour of numpy/pyparsing/re/builtins (model tables); '
                           'vendored voluptuous engine; author-supplied callables respect their contracts. '
                           'Outcome is three-valued: exit 0 all obligations discharged, exit 1 VIOLATION for a recognised '
                           'construct that definitely differs, exit 2 ANALYSIS-ERROR for vanished anchors/unrecognised shapes.'),
            'technique': 'static analysis: ' + TECH[p],
        })
    manifest = {
        'version': 1,
        'setup_cmd': '%s -m compileall -q sa' % PY,
        'hooks': {
            'guard': 'MITX_GRADING_LIBRARY_VERIF',
            'enable': 'none needed: the checks parse /repo\'s working tree; no hook or instrumentation commit exists in /repo',
            'baseline_off_cmd': 'cd /repo && /venv/bin/python -m pytest -ra -q -p no:cacheprovider --timeout=900 '
                                '--continue-on-collection-errors',
            'source_commits': [],
            'add_only': True,
        },
        'engines': [{
            'name': 'sa',
            'path': '/verif/sa',
            'serves_properties': [c['property_id'] for c in checks],
            'kind_free_text': 'repository-specific static analyser (stdlib ast): source index with class-hierarchy call '
                              'resolution, statement CFG with exceptional edges, alias/mutation summaries, canonical-form '
                              'pattern matcher, small abstract interpreters, grammar/schema/table extraction',
        }],
        'checks': checks,
        'not_applicable': na,
        'notes': ('All checks: cd /verif && /venv/bin/python -m sa check <ID> --tier quick|thorough. The thorough tier adds an '
                  'in-memory sensitivity self-test (seeded mutants of the current source must be reported) and a benign-variant '
                  'battery (must stay silent). Known findings / repaired defects: /verif/known_findings.txt; demonstrations in '
                  '/verif/findings/. Seven genuine defects were repaired in /repo by "fix:" commits.'),
    }
    with open(os.path.join(HERE, 'MANIFEST.json'), 'w') as f:
        json.dump(manifest, f, indent=1)
        f.write('\n')
    print('claimed: %s' % ' '.join(c['property_id'] for c in checks))
    print('not applicable / not yet: %s' % ' '.join(n['property_id'] for n in na))


if __name__ == '__main__':
    main()
